#!/usr/bin/env python3
"""C06 - private objects are encrypted at rest under a key only a PIN unlocks.

The driver stores byte strings in CKA_PRIVATE token objects through every store path (C_CreateObject, C_GenerateKey,
C_GenerateKeyPair, C_UnwrapKey, C_DeriveKey, C_CopyObject public->private, C_SetAttributeValue), every class, both
back-ends.  Every value it stores is a fresh random string of >= 16 bytes (dates: random valid dates) that it records;
values the library produces itself (generated / derived keys) are read back through the API and recorded too.  After
EVERY step:
  * the raw bytes of every file below the token directory (object files, lock / generation files, the SQLite file and
    its journal / WAL) are searched for every recorded plaintext, for every PIN ever used and for the master key;
  * vlib/tokenkey.py must unwrap the SAME master key from the SO blob (SO PIN) and the user blob (user PIN), nothing with
    a wrong PIN, and decrypt every byte-string attribute of every private object to exactly the API value;
  * every stored IV (PIN blobs and attribute blobs) is distinct, also from the IVs of all earlier blobs;
  * stat() of every file and directory: no permission bit outside objectstore.umask, for ten spellings of four values (line
    absent, 0077, 077, 77, 0027, 27, 0007, 7, 0, 0000; the expectation is the OCTAL meaning of the text); a dedicated job per
    (spelling, back-end) also covers a second token, re-initialisation and the SQLite rollback journal (kept by a crash point).
Histories include PIN changes (C_SetPIN of both users, C_InitPIN), token re-initialisation, restarts.
Entries nested in CKA_WRAP_TEMPLATE/CKA_UNWRAP_TEMPLATE, booleans, integers and mechanism lists are outside the property."""
import sys, os; sys.path.insert(0, os.path.join(os.path.dirname(os.path.abspath(__file__)), '..', 'vlib'))
import hashlib, random, shutil, stat
from harness import main, Part, pmap
from p11client import Died, Hang
import persist, tokenkey
from persist import UNAVAILABLE, ApiError, Lib

DEFAULT_PRIVATE = ('data', 'sk-', 'priv-', 'dom-')         # classes whose CKA_PRIVATE defaults to true
CLASSES = ['data', 'cert-x509', 'cert-pgp', 'sk-aes', 'sk-des3', 'sk-des2', 'sk-generic', 'sk-hmac', 'pub-rsa', 'pub-dsa', 'pub-ec', 'pub-dh', 'pub-ed', 'priv-rsa', 'priv-dsa', 'priv-ec', 'priv-dh', 'priv-ed', 'dom-dsa', 'dom-dh']
# objectstore.umask "is in octal" (softhsm2.conf(5)): every spelling is read by its OCTAL meaning, with or without leading zeros
SPELLINGS = ('default', '0077', '077', '77', '0027', '27', '0007', '7', '0', '0000')
def umask_of(sp): return 0o077 if sp == 'default' else int(sp, 8)
UMASKS = {sp: umask_of(sp) for sp in SPELLINGS}
CONSTANTS = ('CKA_EC_PARAMS', 'CKA_PUBLIC_EXPONENT')       # driver-supplied public constants of generated keys (a curve OID is not a secret, and not fresh)
MINLEN = 16

def sizes(rnd):
    r = rnd.random()
    if r < .6: return rnd.randrange(16, 65)
    if r < .93: return rnd.randrange(65, 2049)
    if r < .99: return rnd.randrange(2049, 20000)
    return rnd.randrange(65536, 140000)

def role(path):
    n = os.path.basename(path)
    return 'token.object' if n == 'token.object' else 'generation' if n == 'generation' else 'lock' if n.endswith('.lock') else 'object' if n.endswith('.object') else 'db' if n == 'sqlite3.db' else 'db-side-file' if n.startswith('sqlite3.db') else 'other'

class Secret:
    def __init__(s, value, cls, path, attr, what='attribute'): s.value = value; s.cls = cls; s.path = path; s.attr = attr; s.what = what

class Obj:
    def __init__(s, tag, cls, path, h): s.tag = tag; s.cls = cls; s.path = path; s.h = h; s.alive = True

class History:
    def __init__(s, job, part, L, rnd):
        s.job = job; s.part = part; s.L = L; s.rnd = rnd; s.ck = L.ck; s.backend = L.backend; s.umask = UMASKS[job['umask']]; s.n = 0; s.S = None; s.trace = []
        s.label = b'c06-%d' % job['seed']; s.so = b'SO:' + s.fresh(rnd.randrange(9, 20)); s.user = b'U:' + s.fresh(rnd.randrange(9, 20))
        s.gen = persist.ObjGen(s.ck, rnd, sizes, minlen=MINLEN); s.secrets = []; s.known = set(); s.sig = {}; s.scanned = 0; s.M = {}; s.ivs = {}; s.helpers = {}
        s.tokdir = L.d + '/tokens'; s.reinits = 0; s.mode_control = False
        for p, n in ((s.so, 'so-pin'), (s.user, 'user-pin')): s.record(p, 'token', 'C_InitToken' if n == 'so-pin' else 'C_InitPIN', n, what='pin')
    def fresh(s, n): return s.rnd.getrandbits(8 * n).to_bytes(n, 'big')
    def x(s): return s.L.x
    def T(s, t): return s.L.x.T(t)
    def newtag(s): s.n += 1; return b'p%04d' % s.n
    def V(s, key, what, **w): s.part.violation(key, what, dict(w, seed=s.job['seed'], backend=s.backend, umask=s.job['umask'], history_tail=s.trace[-15:]))
    def record(s, v, cls, path, attr, what='attribute'):
        if not isinstance(v, (bytes, bytearray)) or v in s.known: return
        if len(v) < (8 if attr in persist.DATE_ATTRS else MINLEN): return
        s.known.add(bytes(v)); s.secrets.append(Secret(bytes(v), cls, path, attr, what))
    # ---- set-up
    def open(s):
        s.S = s.L.login(s.label, pin=s.user); assert s.S is not None, 'user login failed'
        s.helpers = {}
    def helper(s, name):
        """session objects (never on disk) used by the unwrap / derive / copy paths"""
        if name in s.helpers: return s.helpers[name]
        ck = s.ck; x = s.x(); T = s.T
        if name == 'W':
            h = x.call('C_CreateObject', s=s.S, tmpl=T([('CKA_CLASS', ck.CKO_SECRET_KEY), ('CKA_KEY_TYPE', ck.CKK_AES), ('CKA_VALUE', s.fresh(32)), ('CKA_WRAP', True), ('CKA_UNWRAP', True), ('CKA_DERIVE', True), ('CKA_PRIVATE', False)]))['h']
        elif name in ('ec1', 'ec2'):
            r = x.call('C_GenerateKeyPair', s=s.S, mech=x.M('CKM_EC_KEY_PAIR_GEN'), pub=T([('CKA_EC_PARAMS', persist.P256), ('CKA_PRIVATE', False)]), priv=T([('CKA_EXTRACTABLE', True), ('CKA_SENSITIVE', False), ('CKA_DERIVE', True), ('CKA_PRIVATE', False)]))
            assert r['rv'] == 0, r; h = (r['hpub'], r['hpriv'])
        elif name == 'dh':
            r = x.call('C_GenerateKeyPair', s=s.S, mech=x.M('CKM_DH_PKCS_KEY_PAIR_GEN'), pub=T([('CKA_PRIME', persist.OAKLEY2), ('CKA_BASE', b'\x02'), ('CKA_PRIVATE', False)]), priv=T([('CKA_EXTRACTABLE', True), ('CKA_SENSITIVE', False), ('CKA_DERIVE', True), ('CKA_PRIVATE', False)]))
            assert r['rv'] == 0, r; h = (r['hpub'], r['hpriv'])
        s.helpers[name] = h; return h
    # ---- bookkeeping after a successful store
    def note(s, v, cls, path, a):
        before = len(s.secrets); s.record(v, cls, path, a)
        if len(s.secrets) > before: s.part.distinct.add((cls, path, a, s.backend))
    def adopt(s, tag, cls, path, h, tmpl=(), skip=(), own=None, on_token=True):
        """after a successful store into a private object: FIRST record the byte strings the driver itself supplied (own: the
        names of template entries that are the driver's fresh values; default all), whatever the API says afterwards; then read
        the object back (positive control) and record the byte strings the library produced"""
        o = Obj(tag, cls, path, h); promised = persist.template_api_form(s.ck, tmpl)
        for a, v in promised.items():
            if isinstance(v, bytes) and a not in skip and (own is None or a in own) and s.is_bytes_attr(a, v): s.note(v, cls, path, a)
        if on_token: s.M[tag] = o
        try: snap = s.L.read(s.S, h)
        except ApiError as e:
            s.part.observe('private object unreadable through the API right after ' + path, {'class': cls, 'error': str(e), 'backend': s.backend}); o.alive = False; return o
        if snap.get('CKA_PRIVATE') != b'\x01' or snap.get('CKA_TOKEN') != (b'\x01' if on_token else b'\x00'): s.part.observe('object is not the private object asked for after ' + path, {'class': cls}); o.alive = False; return o
        for a, v in snap.items():
            if not isinstance(v, bytes) or a in skip or a in ('CKA_CHECK_VALUE',): continue
            if a in promised and promised[a] != v: s.part.observe('read-back differs from the template (outside C06)', {'class': cls, 'attr': a, 'path': path}); continue
            if own is not None and a not in own: continue          # inherited from a public token object: legitimately on disk in clear over there
            if isinstance(promised.get(a, v), bytes) and (a in promised or not path.startswith('C_CreateObject')) and s.is_bytes_attr(a, v): s.note(v, cls, path, a)
        return o
    def is_bytes_attr(s, a, v):
        """byte-string attributes only: not booleans (1 byte), CK_ULONG values or mechanism arrays"""
        return a not in ('CKA_ALLOWED_MECHANISMS',) and a not in persist.TEMPLATE_ATTRS and (len(v) >= MINLEN or a in persist.DATE_ATTRS) and not a.startswith('0x')
    # ---- store paths
    def op_create(s, cls=None, by_default=None):
        cls = cls or s.rnd.choice(CLASSES); tag = s.newtag(); tmpl = s.gen.template(cls, True, True, tag)
        # "private" may also come from the class default (PKCS#11: data, secret keys, private keys and domain parameters are private unless the template says otherwise): the template then
        # carries no CKA_PRIVATE at all; adopt() only keeps the object when the API reports it private
        if by_default is None: by_default = s.rnd.random() < .25
        if by_default and cls.startswith(DEFAULT_PRIVATE): tmpl = [e for e in tmpl if e[0] != 'CKA_PRIVATE']; cls_path = 'C_CreateObject(private-by-default)'
        else: cls_path = 'C_CreateObject'
        s.trace.append(('create', cls, tag.decode()) + (('no CKA_PRIVATE in the template',) if cls_path != 'C_CreateObject' else ()))
        # dates of private objects are byte strings like any other: random valid dates
        # an application may state the key check value itself (it is verified against the value and stored): CKA_CHECK_VALUE is a byte string of a private object like any other
        kv = dict((a, v) for a, v in tmpl if isinstance(v, bytes)).get('CKA_VALUE')
        if cls in ('sk-aes', 'sk-des3', 'sk-des2', 'sk-generic', 'sk-hmac') and kv and s.rnd.random() < .5:
            import refcrypt
            try: tmpl = tmpl + [('CKA_CHECK_VALUE', refcrypt.kcv('aes' if cls == 'sk-aes' else 'generic' if cls in ('sk-generic', 'sk-hmac') else 'des3', kv + (kv[:8] if cls == 'sk-des2' else b'')))]; s.part.count('creates_with_supplied_check_value'); cls_path += '+supplied-check-value'
            except Exception: pass
        r = s.x().call('C_CreateObject', s=s.S, tmpl=s.T(tmpl)); s.part.count('calls_create')
        if r['rv'] != 0: s.part.count('refused_create'); s.part.observe('refused C_CreateObject (no verdict)', {'class': cls, 'rv': r['rvname']}); return
        s.adopt(tag, cls, cls_path, r['h'], tmpl)
    def common(s, tag): return [('CKA_TOKEN', True), ('CKA_PRIVATE', True), ('CKA_LABEL', tag + b'|' + s.fresh(16)), ('CKA_ID', s.fresh(s.rnd.randrange(16, 40)))]
    def op_generate_key(s, k=None):
        rnd = s.rnd; k = k or rnd.choice(('aes', 'aes', 'generic', 'des3', 'dsa-params', 'dh-params')); tag = s.newtag(); s.trace.append(('generate', k, tag.decode())); x = s.x()
        if k in ('aes', 'generic', 'des3'):
            tmpl = s.common(tag) + [('CKA_SENSITIVE', False), ('CKA_EXTRACTABLE', True)] + ([('CKA_VALUE_LEN', rnd.choice((16, 24, 32)) if k == 'aes' else rnd.randrange(16, 200))] if k != 'des3' else [])
            mech = {'aes': 'CKM_AES_KEY_GEN', 'generic': 'CKM_GENERIC_SECRET_KEY_GEN', 'des3': 'CKM_DES3_KEY_GEN'}[k]
        else:
            tmpl = [a for a in s.common(tag) if a[0] != 'CKA_ID'] + [('CKA_PRIME_BITS', 1024 if k == 'dsa-params' else 512)]; mech = 'CKM_DSA_PARAMETER_GEN' if k == 'dsa-params' else 'CKM_DH_PKCS_PARAMETER_GEN'
        r = x.call('C_GenerateKey', s=s.S, mech=x.M(mech), tmpl=s.T(tmpl)); s.part.count('calls_generate')
        if r['rv'] != 0: s.part.count('refused_generate'); s.part.observe('refused C_GenerateKey (no verdict)', {'kind': k, 'rv': r['rvname']}); return
        s.adopt(tag, 'gen-' + k, 'C_GenerateKey', r['h'], tmpl)
    def op_generate_pair(s, k=None):
        rnd = s.rnd; k = k or rnd.choice(('ec', 'ec', 'ed', 'rsa', 'dh')); tag = s.newtag(); tag2 = s.newtag(); s.trace.append(('generate-pair', k, tag.decode(), tag2.decode())); x = s.x()
        mech, pubx = {'ec': ('CKM_EC_KEY_PAIR_GEN', [('CKA_EC_PARAMS', rnd.choice((persist.P256, persist.P384)))]), 'ed': ('CKM_EC_EDWARDS_KEY_PAIR_GEN', [('CKA_EC_PARAMS', persist.ED25519)]),
                      'rsa': ('CKM_RSA_PKCS_KEY_PAIR_GEN', [('CKA_MODULUS_BITS', 1024), ('CKA_PUBLIC_EXPONENT', b'\x01\x00\x01')]), 'dh': ('CKM_DH_PKCS_KEY_PAIR_GEN', [('CKA_PRIME', persist.OAKLEY2), ('CKA_BASE', b'\x02')])}[k]
        # the public half is private too (or a session object): otherwise modulus / point would legitimately be on disk in clear
        pub_on_token = rnd.random() < .6
        pub = ([('CKA_TOKEN', True), ('CKA_PRIVATE', True), ('CKA_LABEL', tag + b'|' + s.fresh(16))] if pub_on_token else [('CKA_TOKEN', False), ('CKA_PRIVATE', False)]) + pubx
        priv = s.common(tag2) + [('CKA_SENSITIVE', False), ('CKA_EXTRACTABLE', True), ('CKA_SUBJECT', s.fresh(rnd.randrange(16, 80)))]
        r = x.call('C_GenerateKeyPair', s=s.S, mech=x.M(mech), pub=s.T(pub), priv=s.T(priv)); s.part.count('calls_generate_pair')
        if r['rv'] != 0: s.part.count('refused_generate_pair'); s.part.observe('refused C_GenerateKeyPair (no verdict)', {'kind': k, 'rv': r['rvname']}); return
        skip = CONSTANTS + (('CKA_PRIME', 'CKA_BASE') if k == 'dh' else ())
        if pub_on_token: s.adopt(tag, 'gen-pub-' + k, 'C_GenerateKeyPair', r['hpub'], pub, skip=skip)
        s.adopt(tag2, 'gen-priv-' + k, 'C_GenerateKeyPair', r['hpriv'], priv, skip=skip)
    def op_unwrap(s, k=None):
        rnd = s.rnd; ck = s.ck; x = s.x(); k = k or rnd.choice(('secret', 'secret', 'ec')); tag = s.newtag(); s.trace.append(('unwrap', k, tag.decode())); W = s.helper('W')
        m, p = rnd.choice((('CKM_AES_KEY_WRAP', {}), ('CKM_AES_KEY_WRAP_PAD', {}), ('CKM_AES_CBC_PAD', {'hex': s.fresh(16).hex()})))
        if k == 'secret':
            kt, n = rnd.choice((('AES', 32), ('AES', 16), ('GENERIC_SECRET', 8 * rnd.randrange(2, 12)), ('DES3', 24))); K = s.fresh(n)
            src = x.call('C_CreateObject', s=s.S, tmpl=s.T([('CKA_CLASS', ck.CKO_SECRET_KEY), ('CKA_KEY_TYPE', ck['CKK_' + kt]), ('CKA_VALUE', K), ('CKA_EXTRACTABLE', True), ('CKA_SENSITIVE', False), ('CKA_PRIVATE', False)]))
            if src['rv'] != 0: s.part.count('refused_unwrap'); return
            src = src['h']; head = [('CKA_CLASS', ck.CKO_SECRET_KEY), ('CKA_KEY_TYPE', ck['CKK_' + kt])]; cls = 'unwrapped-' + kt.lower()
        else:
            if m == 'CKM_AES_KEY_WRAP': m = 'CKM_AES_KEY_WRAP_PAD'
            src = s.helper('ec1')[1]; head = [('CKA_CLASS', ck.CKO_PRIVATE_KEY), ('CKA_KEY_TYPE', ck.CKK_EC)]; cls = 'unwrapped-priv-ec'; K = None
        w = x.call('C_WrapKey', s=s.S, mech=x.M(m, **p), wkey=W, key=src, buf=8192)
        if w['rv'] != 0: s.part.count('refused_unwrap'); s.part.observe('refused C_WrapKey (no verdict)', {'mech': m, 'rv': w['rvname']}); return
        tmpl = head + s.common(tag) + [('CKA_SENSITIVE', False), ('CKA_EXTRACTABLE', True)]
        r = x.call('C_UnwrapKey', s=s.S, mech=x.M(m, **p), ukey=W, wrapped=w['out']['data'], tmpl=s.T(tmpl)); s.part.count('calls_unwrap')
        if k == 'secret': x.call('C_DestroyObject', s=s.S, o=src)
        if r['rv'] != 0: s.part.count('refused_unwrap'); s.part.observe('refused C_UnwrapKey (no verdict)', {'mech': m, 'kind': k, 'rv': r['rvname']}); return
        if K is not None: s.record(K, cls, 'C_UnwrapKey', 'CKA_VALUE')        # the driver's own plaintext, whatever the API says
        s.adopt(tag, cls, 'C_UnwrapKey', r['h'], tmpl, skip=CONSTANTS)
    def op_derive(s, k=None):
        rnd = s.rnd; ck = s.ck; x = s.x(); k = k or rnd.choice(('ecdh', 'aes-ecb', 'aes-cbc', 'dh')); tag = s.newtag(); s.trace.append(('derive', k, tag.decode()))
        kt, n = rnd.choice((('AES', 32), ('GENERIC_SECRET', 32), ('AES', 16), ('GENERIC_SECRET', 24)))
        tmpl = [('CKA_CLASS', ck.CKO_SECRET_KEY), ('CKA_KEY_TYPE', ck['CKK_' + kt]), ('CKA_VALUE_LEN', n)] + s.common(tag) + [('CKA_SENSITIVE', False), ('CKA_EXTRACTABLE', True)]
        if k == 'ecdh':
            rv, pt = x.getattrs(s.S, s.helper('ec2')[0], ['CKA_EC_POINT']); base = s.helper('ec1')[1]; mech = x.M('CKM_ECDH1_DERIVE', ecdh1={'kdf': 1, 'public': pt['CKA_EC_POINT'].hex()})
        elif k == 'dh':
            rv, pv = x.getattrs(s.S, s.helper('dh')[0], ['CKA_VALUE'], cap=1024); base = s.helper('dh')[1]; mech = x.M('CKM_DH_PKCS_DERIVE', hex=pv['CKA_VALUE'].hex())
        elif k == 'aes-ecb': base = s.helper('W'); mech = x.M('CKM_AES_ECB_ENCRYPT_DATA', kdstr=s.fresh(32).hex())
        else: base = s.helper('W'); mech = x.M('CKM_AES_CBC_ENCRYPT_DATA', cbcdata={'iv': s.fresh(16).hex(), 'data': s.fresh(32).hex()})
        r = x.call('C_DeriveKey', s=s.S, mech=mech, key=base, tmpl=s.T(tmpl)); s.part.count('calls_derive')
        if r['rv'] != 0: s.part.count('refused_derive'); s.part.observe('refused C_DeriveKey (no verdict)', {'kind': k, 'rv': r['rvname']}); return
        s.adopt(tag, 'derived-' + kt.lower(), 'C_DeriveKey', r['h'], tmpl)
    def copy_candidates(s, cls):
        """byte-string attributes a copy template may carry for this class (refusals are expected for some)"""
        c = s.gen.table[cls]; cand = [a for a, lens in c['opt']] + (['CKA_ISSUER', 'CKA_SERIAL_NUMBER'] if cls.startswith('cert') else []) + (list(persist.DATE_ATTRS) if c['dates'] else [])
        return list(dict.fromkeys(cand))
    def op_copy_upgrade(s, cls=None, source=None, target_token=None, extra=None, pos=None):
        """public object (session object, or token object whose values are legitimately in clear) -> CKA_PRIVATE=true copy (token or
        session target).  The copy template carries fresh random byte strings (label + `extra` attributes) at position `pos`:
        everything inherited AND everything supplied in the template must end up encrypted"""
        rnd = s.rnd; cls = cls or rnd.choice(CLASSES); source = source or rnd.choice(('session', 'session', 'token')); target_token = (rnd.random() < .8) if target_token is None else target_token
        tag = s.newtag(); x = s.x(); cands = s.copy_candidates(cls)
        if extra is None: extra = rnd.sample(cands, min(len(cands), rnd.randrange(0, 3)))
        s.trace.append(('copy-upgrade', cls, source, 'token' if target_token else 'session', tag.decode(), list(extra)))
        src_t = [(a, v) for a, v in s.gen.template(cls, source == 'token', False, b'src%d' % s.n) if a not in ('CKA_COPYABLE', 'CKA_MODIFIABLE', 'CKA_DESTROYABLE')]; r = x.call('C_CreateObject', s=s.S, tmpl=s.T(src_t))
        if r['rv'] != 0: s.part.count('refused_copy'); return
        fresh = [('CKA_LABEL', tag + b'|' + s.fresh(16))] + [(a, persist.rand_date(rnd) if a in persist.DATE_ATTRS else s.fresh(rnd.randrange(16, 70))) for a in extra]
        flags = [('CKA_TOKEN', target_token), ('CKA_PRIVATE', True)]; tmpl = list(fresh)
        for i, f in enumerate(flags):          # the byte strings sit before, between or after the flags that make the copy private
            at = (pos if pos is not None else rnd.randrange(0, len(tmpl) + 1)) + i * (1 if pos is None else 0); tmpl.insert(min(max(at, 0), len(tmpl)), f)
        c = x.call('C_CopyObject', s=s.S, o=r['h'], tmpl=s.T(tmpl)); s.part.count('calls_copy'); x.call('C_DestroyObject', s=s.S, o=r['h'])
        if c['rv'] != 0: s.part.count('refused_copy'); s.part.observe('refused C_CopyObject (no verdict)', {'class': cls, 'rv': c['rvname'], 'extra': list(extra)}); return
        s.part.distinct.add(('copy-upgrade', cls, source, 'token' if target_token else 'session', s.backend))
        given = {a for a, v in fresh}
        # what the source template held is what the private copy must now hold; values of a public TOKEN source are not secrets
        full = [(a, v) for a, v in src_t if a not in given and a not in ('CKA_TOKEN', 'CKA_PRIVATE')] + tmpl
        s.adopt(tag, cls, 'C_CopyObject', c['h'], full, own=(given if source == 'token' else None), on_token=target_token)
    def op_set(s):
        c = [o for o in s.M.values() if o.alive and o.cls in s.gen.table]
        if not c: return
        o = s.rnd.choice(c); cand = [(a, v) for a, v in s.gen.settable(o.cls) if isinstance(v, bytes)] + [('CKA_LABEL', o.tag + b'|' + s.fresh(s.rnd.randrange(16, 60)))]
        tmpl = s.rnd.sample(cand, min(len(cand), s.rnd.randrange(1, 4)))
        if o.cls.startswith('sk-') and s.rnd.random() < .4:      # re-assert the key's own check value (what a provisioning tool does after reading it)
            try:
                cv = s.L.read(s.S, o.h).get('CKA_CHECK_VALUE')
                if isinstance(cv, bytes) and len(cv) == 3: tmpl = tmpl + [('CKA_CHECK_VALUE', cv)]; s.part.count('sets_with_supplied_check_value')
            except ApiError: pass
        s.trace.append(('set', o.tag.decode(), o.cls, [a for a, v in tmpl]))
        r = s.x().call('C_SetAttributeValue', s=s.S, o=o.h, tmpl=s.T(tmpl)); s.part.count('calls_set')
        if r['rv'] != 0: s.part.count('refused_set'); return
        snap = s.L.read(s.S, o.h)
        for a, v in tmpl:
            if snap.get(a) == v and snap.get('CKA_PRIVATE') == b'\x01':
                before = len(s.secrets); s.record(v, o.cls, 'C_SetAttributeValue', a)
                if len(s.secrets) > before: s.part.distinct.add((o.cls, 'C_SetAttributeValue', a, s.backend))
    def op_destroy(s):
        c = [o for o in s.M.values() if o.alive]
        if not c: return
        o = s.rnd.choice(c); s.trace.append(('destroy', o.tag.decode())); r = s.x().call('C_DestroyObject', s=s.S, o=o.h)
        if r['rv'] == 0: o.alive = False
    # ---- PIN / token history
    def op_setpin_user(s):
        new = b'U:' + s.fresh(s.rnd.randrange(9, 30)); s.trace.append(('C_SetPIN', 'user')); r = s.x().call('C_SetPIN', s=s.S, old=s.user.hex(), new=new.hex())
        if r['rv'] == 0: s.user = new; s.record(new, 'token', 'C_SetPIN', 'user-pin', what='pin'); s.part.count('pin_changes')
    def so_session(s, fn):
        x = s.x(); x.call('C_Logout', s=s.S); r = x.call('C_Login', s=s.S, user=0, pin=s.so.hex()); assert r['rv'] == 0, r
        try: fn()
        finally:
            x.call('C_Logout', s=s.S); r = x.call('C_Login', s=s.S, user=1, pin=s.user.hex()); assert r['rv'] == 0, ('user login after SO work', r)
            s.refresh_handles()
    def refresh_handles(s):
        """C_Logout kills the handles of private objects: find them again by tag"""
        rv, hs = s.x().findall(s.S); by = {}
        for h in hs:
            rv, v = s.x().getattrs(s.S, h, ['CKA_LABEL'], cap=1024); by[(v.get('CKA_LABEL') or b'').split(b'|')[0]] = h
        for o in s.M.values():
            if o.alive:
                if o.tag in by: o.h = by[o.tag]
                else: o.alive = False; s.part.observe('private object not found again after re-login (C05/C11 territory)', {'class': o.cls})
    def op_setpin_so(s):
        new = b'SO:' + s.fresh(s.rnd.randrange(9, 30)); s.trace.append(('C_SetPIN', 'so'))
        def f():
            r = s.x().call('C_SetPIN', s=s.S, old=s.so.hex(), new=new.hex())
            if r['rv'] == 0: s.so = new; s.record(new, 'token', 'C_SetPIN', 'so-pin', what='pin'); s.part.count('pin_changes')
        s.so_session(f)
    def op_initpin(s):
        new = b'U:' + s.fresh(s.rnd.randrange(9, 30)); s.trace.append(('C_InitPIN',))
        def f():
            r = s.x().call('C_InitPIN', s=s.S, pin=new.hex())
            if r['rv'] == 0: s.user = new; s.record(new, 'token', 'C_InitPIN', 'user-pin', what='pin'); s.part.count('pin_changes')
        s.so_session(f)
    def op_reinit_token(s):
        s.trace.append(('C_InitToken',)); x = s.x(); slot = s.L.slot_of(s.label); x.call('C_CloseAllSessions', slot=slot); s.reinits += 1; newlabel = b'c06-%d-r%d' % (s.job['seed'], s.reinits)
        r = x.call('C_InitToken', slot=slot, pin=s.so.hex(), label=newlabel.hex()); assert r['rv'] == 0, r
        s.label = newlabel; s.user = b'U:' + s.fresh(12); s.record(s.user, 'token', 'C_InitPIN', 'user-pin', what='pin')
        h = x.call('C_OpenSession', slot=slot)['h']; assert x.call('C_Login', s=h, user=0, pin=s.so.hex())['rv'] == 0; assert x.call('C_InitPIN', s=h, pin=s.user.hex())['rv'] == 0; x.call('C_CloseSession', s=h)
        for o in s.M.values(): o.alive = False
        s.open(); s.part.count('token_reinits')
    def op_restart(s):
        kind = s.rnd.choice(('reinit', 'newproc')); s.trace.append(('restart', kind)); s.L.restart(kind); s.open(); s.refresh_handles(); s.part.count('restarts')
    # ---- the oracles
    def scan(s, where):
        """raw bytes of EVERY file below the token directory vs every recorded plaintext; mode bits of every path"""
        part = s.part; files = persist.all_files(s.tokdir); new = s.secrets[s.scanned:]; old = s.secrets[:s.scanned]; sig = {}
        for p, st in files:
            bad = stat.S_IMODE(st.st_mode) & s.umask
            part.count('paths_statted')
            if bad:
                r = 'dir' if stat.S_ISDIR(st.st_mode) else role(p)
                s.V(f'file-mode|{s.backend},umask={s.job["umask"]},{r}|bits-outside-umask', f'a {r} below the token directory has permission bits outside objectstore.umask', mode=oct(stat.S_IMODE(st.st_mode)), umask=oct(s.umask), where=where)
            if not stat.S_ISREG(st.st_mode): continue
            if stat.S_IMODE(st.st_mode) == 0o666 & ~s.umask: s.mode_control = True        # control: the configured umask is what the library applied
            sig[p] = (st.st_size, st.st_mtime_ns, st.st_ino); todo = (old + new) if s.sig.get(p) != sig[p] else new
            if not todo or st.st_size == 0: continue
            try:
                with open(p, 'rb') as f: data = f.read()
            except FileNotFoundError: continue
            part.count('bytes_scanned', len(data))
            for sec in todo:
                if sec.value in data:
                    if sec.what == 'pin': s.V(f'{sec.path}|{s.backend},{sec.attr}|plaintext-on-disk', f'a PIN is stored in clear in a {role(p)} file', file=role(p), where=where)
                    elif sec.what == 'master-key': s.V(f'token|{s.backend},master-key|plaintext-on-disk', f'the master key is stored in clear in a {role(p)} file', file=role(p), where=where)
                    else: s.V(f'{sec.path}|{s.backend},{sec.attr}|plaintext-on-disk', f'{sec.attr} of a private {sec.cls} object stored through {sec.path} is in clear in a {role(p)} file', cls=sec.cls, file=role(p), length=len(sec.value), where=where, offset=data.find(sec.value))
        part.case(None, n=len(s.secrets)); part.count('scans'); part.count('files_seen', len(sig)); s.sig = sig; s.scanned = len(s.secrets)
    def decode(s, where):
        """tokenkey.py: same master key through both blobs, nothing with a wrong PIN; every private byte string decrypts to the API value; IVs distinct"""
        part = s.part; toks = [t for t in persist.read_disk(s.tokdir, s.backend, s.L.d) if t.info and t.info.label and t.info.label.rstrip(b' ') == s.label]
        if len(toks) != 1: s.V(f'decoder|{s.backend}|token-not-decodable', 'the independent decoder does not find the token', found=len(toks)); return
        t = toks[0]; mk = t.master_key(s.user); mk2 = t.master_key(s.so, so=True); part.count('decodes')
        if mk is None or mk2 is None or mk != mk2: s.V(f'decoder|{s.backend}|master-key-not-the-same-through-both-pins', 'SO blob and user blob do not unwrap to one master key with the right PINs', user=mk is not None, so=mk2 is not None, where=where); return
        for wrong in (s.user + b'\x00', s.user[:-1], s.so, b'U:'):
            if wrong != s.user and t.master_key(wrong) is not None: s.V(f'decoder|{s.backend}|master-key-without-the-pin', 'the user blob unwraps with a wrong PIN', where=where)
        if t.master_key(s.user, so=True) is not None: s.V(f'decoder|{s.backend}|master-key-without-the-pin', 'the SO blob unwraps with the user PIN', where=where)
        if mk not in s.known: s.known.add(mk); s.secrets.append(Secret(mk, 'token', 'token', 'master-key', what='master-key'))
        # IVs: within this snapshot and against every earlier blob
        seen = {}
        for name, blob in (('so-pin-blob', t.info.so_blob), ('user-pin-blob', t.info.user_blob)):
            if blob: seen.setdefault(bytes(blob[8:24]), []).append((name, hashlib.sha256(blob).hexdigest()[:16]))
        disk = {}
        for o in t.objects:
            v, probs = o.api_view(mk, s.ck); tg = (v.get('CKA_LABEL') or b'').split(b'|')[0]; disk[tg] = (o, v, probs)
            if not o.private: continue
            for ty, blob in o.blobs.items():
                if len(blob) >= 32: seen.setdefault(bytes(blob[:16]), []).append((s.ck.ATTR.get(ty, hex(ty)), hashlib.sha256(blob).hexdigest()[:16]))
        # every private object in the directory, whether or not the model knows it and whether or not the API can still read it: each non-empty byte string must be a blob that
        # decrypts under the PIN-derived key (a value the library stored as it was makes the object unreadable through the API -- which must not hide it from this check)
        for tg, (do_, v_, probs_) in disk.items():
            if not do_.private: continue
            part.count('private_objects_decoded')
            for p_ in probs_:
                an = p_.split(' ')[0]; st_ = do_.raw.get(s.ck[an]) if an in s.ck.K else None
                s.V(f'at-rest|{s.backend},{an}|private-byte-string-not-encrypted-under-the-master-key', p_, stored_bytes=len(st_) if isinstance(st_, (bytes, bytearray)) else None, known_to_model=tg in s.M, where=where)
        for iv, users in seen.items():
            part.count('ivs_checked')
            if len(users) > 1: s.V(f'iv|{s.backend}|shared-by-two-stored-blobs', 'two stored blobs share an IV', users=[u[0] for u in users], where=where)
            prev = s.ivs.get(iv)
            if prev is not None and prev != users[0][1]: s.V(f'iv|{s.backend}|reused-for-a-later-blob', 'an IV of an earlier blob is used again for a different blob', attr=users[0][0], where=where)
            s.ivs[iv] = users[0][1]
        for tag, o in s.M.items():
            if not o.alive: continue
            if tag not in disk: s.V(f'decoder|{s.backend},{o.cls}|object-not-on-disk', 'a live private token object is not found in the directory by the decoder', path=o.path, where=where); continue
            do, v, probs = disk[tag]
            if not do.private: s.V(f'{o.path}|{s.backend},{o.cls}|stored-as-public', 'an object the API calls private is stored with CKA_PRIVATE false', where=where); continue
            try: api = s.L.read(s.S, o.h)
            except ApiError as e: part.observe('object unreadable through the API (outside C06)', {'class': o.cls, 'error': str(e)}); continue
            for a, w in api.items():
                if not isinstance(w, bytes) or len(w) in (1, 8) and a not in persist.DATE_ATTRS: continue
                part.count('values_decrypted'); g = v.get(a, '<absent>')
                if g != w: s.V(f'decoder|{s.backend},{a}|does-not-decrypt-to-the-api-value', f'{a} decrypted from the directory with the PIN-derived key differs from the API value', cls=o.cls, path=o.path, api=persist.short(w), disk=persist.short(g), where=where)
                # without the key: the stored bytes are not the value, and a wrong key does not give it
                raw = do.raw.get(s.ck[a]) if a in s.ck.K else None
                if isinstance(raw, bytes) and len(w) >= 8:
                    if raw == w or w in raw: s.V(f'{o.path}|{s.backend},{a}|stored-unencrypted', f'{a} of a private object is stored as is', cls=o.cls, where=where)
    def check(s, where, deep=True):
        if deep: s.decode(where)
        s.scan(where)
    def run(s, steps):
        L = s.L; L.start(); L.init_token(s.label, so=s.so, user=s.user); s.open(); s.check('after token initialisation')
        fixed = s.job.get('systematic')
        if fixed:
            # all classes x paths once
            plan = [(lambda c: s.op_create(c, by_default=False), c) for c in CLASSES] + [(lambda c: s.op_create(c, by_default=True), c) for c in CLASSES if c.startswith(DEFAULT_PRIVATE)] + [(s.op_generate_key, k) for k in ('aes', 'generic', 'des3', 'dsa-params', 'dh-params')] + \
                   [(s.op_generate_pair, k) for k in ('ec', 'ed', 'rsa', 'dh')] + [(s.op_unwrap, k) for k in ('secret', 'secret', 'ec')] + [(s.op_derive, k) for k in ('ecdh', 'aes-ecb', 'aes-cbc', 'dh')]
            for i, (f, a) in enumerate(plan):
                f(a); s.check(s.trace[-1][0] if s.trace else '?', deep=(i % 4 == 3))
            n = 0
            for c in CLASSES:
                for extra in [[]] + [[a] for a in s.copy_candidates(c)] + [s.copy_candidates(c)[:3]]:
                    n += 1; s.op_copy_upgrade(c, source=('session', 'token')[n % 2], target_token=(n % 5 != 0), extra=extra, pos=(0, 1, 2, 9)[n % 4]); s.check('copy-upgrade', deep=(n % 9 == 8))
            for i in range(25): s.op_set(); s.check('set', deep=(i % 6 == 5))
            for f in (s.op_setpin_user, s.op_setpin_so, s.op_initpin, s.op_restart): f(); s.check(s.trace[-1][0])
            s.op_reinit_token(); s.check('C_InitToken'); s.op_create('sk-aes'); s.op_create('data'); s.check('after re-initialisation')
        else:
            ops = [(s.op_create, 8), (s.op_generate_key, 1.5), (s.op_generate_pair, 1.5), (s.op_unwrap, 2), (s.op_derive, 2), (s.op_copy_upgrade, 3), (s.op_set, 6), (s.op_destroy, 2),
                   (s.op_setpin_user, 1), (s.op_setpin_so, .7), (s.op_initpin, .7), (s.op_reinit_token, .4), (s.op_restart, 1)]
            fns = [f for f, w in ops]; ws = [w for f, w in ops]
            for i in range(steps):
                s.rnd.choices(fns, ws)[0](); s.check(s.trace[-1][0] if s.trace else '?', deep=(i % 3 == 2))
        s.L.restart('newproc'); s.open(); s.refresh_handles(); s.check('end (new process)')

def w_history(job):
    part = Part(); d = os.path.join(job['scratch'], 'c%d' % job['seed']); shutil.rmtree(d, ignore_errors=True); os.makedirs(d)
    extra = '' if job['umask'] == 'default' else 'objectstore.umask = %s\n' % job['umask']
    L = Lib(job, d, job['backend'], job['cfg'], extra); h = History(job, part, L, random.Random(job['seed']))
    try: h.run(job['steps']); part.count('histories')
    except Died as e: part.observe('side:C17 library terminated the host', {'kind': e.kind(), 'fn': e.fn, 'where': e.where(), 'seed': job['seed']}); part.inconc(f'executor died ({e.kind()} in {e.fn}) seed={job["seed"]}')
    except Hang: part.inconc(f'executor hang seed={job["seed"]}')
    except (AssertionError, ApiError) as e: part.inconc(f'history could not continue seed={job["seed"]} backend={job["backend"]}: {e!r} after {h.trace[-3:]}')
    finally:
        if L.x is not None:
            for cat, loc in L.x.ubsan_reports()[:10]: part.observe('side:ubsan ' + loc, cat)
        L.stop()
    part.count('secrets_recorded', len(h.secrets))
    if h.mode_control: part.distinct.add(('mode-bits', job['umask'], job['backend']))
    elif h.trace: part.observe('control failed: no file carries exactly the mode 0666 & ~umask', {'umask': job['umask'], 'backend': job['backend']})
    if len(part.samples) < 1: part.samples.append({'seed': job['seed'], 'backend': job['backend'], 'umask': job['umask'], 'secrets': len(h.secrets), 'history_head': [repr(t) for t in h.trace[:15]]})
    shutil.rmtree(d, ignore_errors=True); return part

# ---------------------------------------------------------------- RNG fault sweep (beyond the stated quantifier, see assumptions)
RLABEL = b'c06-rng'; RSO = b'SO:rng-sweep-so-pin'; RUSER = b'U:rng-sweep-user-pin'
RNG_CALLS = ('C_CreateObject', 'C_GenerateKey', 'C_GenerateKeyPair', 'C_SetAttributeValue', 'C_CopyObject', 'C_UnwrapKey', 'C_DeriveKey', 'C_SetPIN')
def rng_base(L):
    ck = L.ck; L.start(); L.init_token(RLABEL, so=RSO, user=RUSER); S = L.login(RLABEL, pin=RUSER); T = L.x.T
    for t in ([('CKA_CLASS', ck.CKO_SECRET_KEY), ('CKA_KEY_TYPE', ck.CKK_AES), ('CKA_TOKEN', True), ('CKA_PRIVATE', True), ('CKA_LABEL', b'victim-set'), ('CKA_ID', os.urandom(20)), ('CKA_VALUE', os.urandom(32)), ('CKA_SENSITIVE', False), ('CKA_EXTRACTABLE', True)],
              [('CKA_CLASS', ck.CKO_SECRET_KEY), ('CKA_KEY_TYPE', ck.CKK_GENERIC_SECRET), ('CKA_TOKEN', True), ('CKA_PRIVATE', False), ('CKA_LABEL', b'victim-copy'), ('CKA_ID', os.urandom(20)), ('CKA_VALUE', os.urandom(40)), ('CKA_SENSITIVE', False), ('CKA_EXTRACTABLE', True)],
              [('CKA_CLASS', ck.CKO_DATA), ('CKA_TOKEN', True), ('CKA_PRIVATE', True), ('CKA_LABEL', b'bystander'), ('CKA_APPLICATION', os.urandom(20)), ('CKA_VALUE', os.urandom(100))]):
        r = L.x.call('C_CreateObject', s=S, tmpl=T(t)); assert r['rv'] == 0, r
    L.stop()
def rng_scenario(L, S, call, rnd):
    """prepare everything the call needs (no RNG fault armed yet) -> (request kwargs, [fresh plaintexts the call is given])"""
    ck = L.ck; x = L.x; T = x.T; fr = lambda n: rnd.getrandbits(8 * n).to_bytes(n, 'big'); find = lambda lab: x.findall(S, [('CKA_LABEL', lab)])[1][0]
    lab, idv, val = b'new|' + fr(16), fr(24), fr(48); priv = [('CKA_TOKEN', True), ('CKA_PRIVATE', True), ('CKA_LABEL', lab), ('CKA_ID', idv), ('CKA_SENSITIVE', False), ('CKA_EXTRACTABLE', True)]
    helper = lambda: x.call('C_CreateObject', s=S, tmpl=T([('CKA_CLASS', ck.CKO_SECRET_KEY), ('CKA_KEY_TYPE', ck.CKK_AES), ('CKA_VALUE', fr(32)), ('CKA_WRAP', True), ('CKA_UNWRAP', True), ('CKA_DERIVE', True), ('CKA_PRIVATE', False)]))['h']
    if call == 'C_CreateObject': return dict(s=S, tmpl=T([('CKA_CLASS', ck.CKO_SECRET_KEY), ('CKA_KEY_TYPE', ck.CKK_GENERIC_SECRET), ('CKA_VALUE', val), ('CKA_START_DATE', b'20240101')] + priv)), [lab, idv, val]
    if call == 'C_GenerateKey': return dict(s=S, mech=x.M('CKM_AES_KEY_GEN'), tmpl=T(priv + [('CKA_VALUE_LEN', 32)])), [lab, idv]
    if call == 'C_GenerateKeyPair': return dict(s=S, mech=x.M('CKM_EC_KEY_PAIR_GEN'), pub=T([('CKA_TOKEN', True), ('CKA_PRIVATE', True), ('CKA_EC_PARAMS', persist.P256), ('CKA_LABEL', b'newpub|' + fr(16))]), priv=T(priv)), [lab, idv]
    if call == 'C_SetAttributeValue': return dict(s=S, o=find(b'victim-set'), tmpl=T([('CKA_ID', idv), ('CKA_LABEL', lab), ('CKA_END_DATE', b'20301231')])), [lab, idv]
    if call == 'C_CopyObject':      # public SESSION source (token-object copies are broken wholesale on the db back-end, see C05)
        src = x.call('C_CreateObject', s=S, tmpl=T([('CKA_CLASS', ck.CKO_SECRET_KEY), ('CKA_KEY_TYPE', ck.CKK_GENERIC_SECRET), ('CKA_PRIVATE', False), ('CKA_LABEL', b'src'), ('CKA_ID', fr(20)), ('CKA_VALUE', val), ('CKA_SENSITIVE', False), ('CKA_EXTRACTABLE', True)]))['h']
        return dict(s=S, o=src, tmpl=T([('CKA_LABEL', lab), ('CKA_TOKEN', True), ('CKA_PRIVATE', True), ('CKA_ID', idv)])), [lab, idv, val]
    if call == 'C_UnwrapKey':
        W = helper(); K = x.call('C_CreateObject', s=S, tmpl=T([('CKA_CLASS', ck.CKO_SECRET_KEY), ('CKA_KEY_TYPE', ck.CKK_GENERIC_SECRET), ('CKA_VALUE', val), ('CKA_EXTRACTABLE', True), ('CKA_SENSITIVE', False), ('CKA_PRIVATE', False)]))['h']
        w = x.call('C_WrapKey', s=S, mech=x.M('CKM_AES_KEY_WRAP'), wkey=W, key=K, buf=512); assert w['rv'] == 0, w
        return dict(s=S, mech=x.M('CKM_AES_KEY_WRAP'), ukey=W, wrapped=w['out']['data'], tmpl=T([('CKA_CLASS', ck.CKO_SECRET_KEY), ('CKA_KEY_TYPE', ck.CKK_GENERIC_SECRET)] + priv)), [lab, idv, val]
    if call == 'C_DeriveKey':
        return dict(s=S, mech=x.M('CKM_AES_ECB_ENCRYPT_DATA', kdstr=fr(32).hex()), key=helper(), tmpl=T([('CKA_CLASS', ck.CKO_SECRET_KEY), ('CKA_KEY_TYPE', ck.CKK_GENERIC_SECRET), ('CKA_VALUE_LEN', 32)] + priv)), [lab, idv]
    if call == 'C_SetPIN': return dict(s=S, old=RUSER.hex(), new=(b'U:' + idv).hex()), [b'U:' + idv]
    raise ValueError(call)
def rng_run(job, base, call, k, rnd):
    """-> dict(rv, calls, injected, ivs, hits) ; k = 0: count only"""
    d = os.path.join(job['scratch'], 'rng-%s-%s-%d-%d' % (job['backend'], call, k, os.getpid())); shutil.rmtree(d, ignore_errors=True); shutil.copytree(base, d, symlinks=True)
    for f in os.listdir(d):
        if f != 'tokens': os.remove(os.path.join(d, f))
    L = Lib(job, d, job['backend'], job['cfg'])
    try:
        L.start(); S = L.login(RLABEL, pin=RUSER); assert S is not None; kw, fresh = rng_scenario(L, S, call, rnd)
        L.x.call('rng', mode='fail', k=k) if k else L.x.call('rng', mode='count')
        r = L.x.call(call, **kw); st = L.x.call('rng', mode='status'); L.x.call('rng', mode='off')
        L.stop(); ivs = []; hits = []
        for t in persist.read_disk(d + '/tokens', job['backend'], d): ivs += t.stored_ivs()
        for p, st_ in persist.all_files(d + '/tokens'):
            if stat.S_ISREG(st_.st_mode):
                data = open(p, 'rb').read(); hits += [(role(p), len(v)) for v in fresh if v in data]
        return dict(rv=r['rvname'], calls=st['calls'], injected=st['injected'], ivs=ivs, hits=hits)
    finally:
        L.stop(); shutil.rmtree(d, ignore_errors=True)
def w_rng(job):
    part = Part(); call = job['call']; b = job['backend']; base = os.path.join(job['scratch'], 'rng-base-%s-%s' % (b, call)); shutil.rmtree(base, ignore_errors=True); os.makedirs(base); rnd = random.Random(job['seed'])
    try:
        rng_base(Lib(job, base, b, job['cfg'])); ref = rng_run(job, base, call, 0, rnd)
    except (Died, Hang, AssertionError, ApiError) as e: part.inconc('RNG sweep preparation failed for %s/%s: %r' % (b, call, e)); return part
    part.count('rng_calls_' + call + '_' + b, ref['calls'])
    if ref['rv'] != 'CKR_OK': part.inconc(f'RNG sweep: fault-free {call} on {b} failed with {ref["rv"]}'); return part
    if ref['calls'] == 0: part.observe('no RAND_bytes request seen during a storing call (the executor cannot inject RNG faults here)', {'call': call, 'backend': b}); return part
    for k in range(1, ref['calls'] + 1):
        try: res = rng_run(job, base, call, k, rnd)
        except Died as e:
            part.observe('side:C17 library terminated the host when an RNG request failed', {'kind': e.kind(), 'fn': e.fn, 'where': e.where(), 'call': call, 'k': k, 'backend': b}); part.count('rng_faults_died'); continue
        except Hang: part.inconc(f'executor hang under RNG fault {call} k={k}'); continue
        except AssertionError as e: part.inconc(f'RNG fault run set-up failed {call} k={k}: {e!r}'); continue
        if res['injected'] != 1: part.observe('RNG fault point not reached', {'call': call, 'k': k}); continue
        ok = res['rv'] == 'CKR_OK'; part.case((call, 'rng-fault', b, 'ok' if ok else 'failed')); part.count('rng_faults_injected'); part.count('rng_faulted_calls_ok' if ok else 'rng_faulted_calls_failed')
        w = dict(call=call, k=k, of=ref['calls'], rv=res['rv'], backend=b); seen = {}
        for what, iv in res['ivs']:
            name = what if isinstance(what, str) else hex(what)
            if iv == b'\0' * 16: part.violation(f'{call}|{b},rng-fault|stored-with-all-zero-iv', f'an RNG request failed during {call}; the library stored a blob under an all-zero IV instead of failing', dict(w, blob=name))
            if iv in seen: part.violation(f'{call}|{b},rng-fault|iv-shared-by-two-blobs', f'an RNG request failed during {call}; two stored blobs share an IV', dict(w, blobs=[seen[iv], name]))
            seen[iv] = name
        for r_, n in res['hits']: part.violation(f'{call}|{b},rng-fault|plaintext-on-disk', f'an RNG request failed during {call}; a value given to the call is in clear in a {r_} file', dict(w, file=r_, length=n))
    shutil.rmtree(base, ignore_errors=True); return part

# ---------------------------------------------------------------- the user logs out (another thread) while a call is storing a private object
def w_logout_race(job):
    """two threads, locking enabled (application mutex callbacks with stalls): one stores private token objects with values the driver knows -- C_UnwrapKey, C_CreateObject, C_CopyObject
    public -> private, C_SetAttributeValue -- while the other logs the user out and in again.  A call that loses its login half-way may fail, or store nothing; it must not leave the
    plaintext of the value in the token directory.  Afterwards every file is searched for every known value."""
    from ck import CK
    from p11client import Exec, mkconf
    from harness import SAN_ENV
    import refcrypt as R
    ck = CK(job['hdr']); part = Part(); rnd = random.Random(job['seed']); b = job['backend']; d = os.path.join(job['scratch'], 'lr-%s-%d' % (b, job['seed'])); shutil.rmtree(d, ignore_errors=True); os.makedirs(d)
    x = None
    try:
        x = Exec(job['paths']['asan']['exe'], job['paths']['asan']['lib'], mkconf(d, b), ck, env=dict(SAN_ENV), stderr=d + '/stderr.log'); x.timeout = 300
        assert x.call('C_Initialize', locking='cb', **{'yield': {'seed': job['seed'], 'p': job['yield_p'], 'maxus': job['yield_us']}})['rv'] == 0
        slot = x.call('C_GetSlotList', count=8)['slots'][-1]; assert x.call('C_InitToken', slot=slot, pin=RSO.hex(), label=b'lr'.hex())['rv'] == 0
        s0 = x.call('C_OpenSession', slot=slot)['h']; assert x.call('C_Login', s=s0, user=0, pin=RSO.hex())['rv'] == 0 and x.call('C_InitPIN', s=s0, pin=RUSER.hex())['rv'] == 0 and x.call('C_Logout', s=s0)['rv'] == 0
        assert x.call('C_Login', s=s0, user=1, pin=RUSER.hex())['rv'] == 0
        wkv = rnd.randbytes(32); r = x.call('C_CreateObject', s=s0, tmpl=x.T({'CKA_CLASS': ck.CKO_SECRET_KEY, 'CKA_KEY_TYPE': ck.CKK_AES, 'CKA_TOKEN': True, 'CKA_PRIVATE': False, 'CKA_VALUE': wkv, 'CKA_WRAP': True, 'CKA_UNWRAP': True, 'CKA_LABEL': b'wrapper'})); assert r['rv'] == 0; hw = r['h']
        src = x.call('C_CreateObject', s=s0, tmpl=x.T({'CKA_CLASS': ck.CKO_DATA, 'CKA_TOKEN': False, 'CKA_PRIVATE': False, 'CKA_LABEL': b'copy-source', 'CKA_VALUE': b'public source value'})); assert src['rv'] == 0
        tgt = x.call('C_CreateObject', s=s0, tmpl=x.T({'CKA_CLASS': ck.CKO_DATA, 'CKA_TOKEN': True, 'CKA_PRIVATE': True, 'CKA_LABEL': b'set-target', 'CKA_VALUE': rnd.randbytes(24)})); assert tgt['rv'] == 0
        known = []; S1 = [{'fn': 'C_OpenSession', 'slot': slot}]; sref = '$0.h'
        for i in range(job['iters']):
            v = rnd.randbytes(32); known.append(('C_UnwrapKey', v)); blob = R.kw_wrap(R.AES(wkv), v)
            S1.append({'fn': 'C_UnwrapKey', 's': sref, 'mech': x.M('CKM_AES_KEY_WRAP'), 'ukey': hw, 'wrapped': blob.hex(), 'tmpl': x.T({'CKA_CLASS': ck.CKO_SECRET_KEY, 'CKA_KEY_TYPE': ck.CKK_GENERIC_SECRET, 'CKA_TOKEN': True, 'CKA_PRIVATE': True, 'CKA_LABEL': b'u%d' % i, 'CKA_SENSITIVE': False, 'CKA_EXTRACTABLE': True})})
            v = rnd.randbytes(40); known.append(('C_CreateObject', v)); S1.append({'fn': 'C_CreateObject', 's': sref, 'tmpl': x.T({'CKA_CLASS': ck.CKO_DATA, 'CKA_TOKEN': True, 'CKA_PRIVATE': True, 'CKA_LABEL': b'c%d' % i, 'CKA_VALUE': v})})
            v = rnd.randbytes(40); known.append(('C_CopyObject', v)); S1.append({'fn': 'C_CopyObject', 's': sref, 'o': src['h'], 'tmpl': x.T({'CKA_TOKEN': True, 'CKA_PRIVATE': True, 'CKA_LABEL': b'k%d' % i, 'CKA_VALUE': v})})
            v = rnd.randbytes(40); known.append(('C_SetAttributeValue', v)); S1.append({'fn': 'C_SetAttributeValue', 's': sref, 'o': tgt['h'], 'tmpl': x.T({'CKA_VALUE': v})})
        S2 = [{'fn': 'C_OpenSession', 'slot': slot}]
        for i in range(job['iters'] * 4): S2 += [{'fn': 'C_Login', 's': '$0.h', 'user': 1, 'pin': RUSER.hex()}, {'fn': 'X_Sleep', 'us': rnd.choice([0, 50, 200, 500, 1000, 2500])}, {'fn': 'C_Logout', 's': '$0.h'}]      # short logged-in windows: a storing call that got in is likely to see the logout land inside it
        x.call('C_Logout', s=s0)
        r = x.raw({'fn': 'threads', 'scripts': [S1, S2], 'timeout': 300}); x.call('C_Finalize'); x.close(); x = None
        rvs = {}
        for q, st in zip(S1, r['results'][0]): rvs.setdefault(q['fn'], {}).setdefault(ck.rv(st['rv']), 0); rvs[q['fn']][ck.rv(st['rv'])] += 1
        blobs = [(role(p), open(p, 'rb').read()) for p, st_ in persist.all_files(d + '/tokens') if stat.S_ISREG(st_.st_mode)]
        for fn, v in known:
            part.case(('logout-race', b, fn), nontrivial=True, n=1)
            for rl, data in blobs:
                if v in data: part.violation(f'{fn}|{b},user-logged-out-by-another-thread-during-the-call|plaintext-on-disk', f'the user was logged out by another thread while {fn} was storing a private object: the value is in clear in a {rl} file', {'backend': b, 'seed': job['seed'], 'file_role': rl, 'return_codes': rvs.get(fn)}); break
        part.count('logout_race_calls', len(S1) - 1); part.observe('return codes of storing calls raced by C_Logout', {b: rvs}, cap=4)
    except AssertionError as e: part.inconc(f'logout-race set-up failed ({b}): {e!r}')
    except Died as e: part.observe('side:C17/C18 library terminated the host in the logout race', {'kind': e.kind(), 'fn': e.fn}); part.inconc(f'executor died in the logout race ({b})')
    except Hang: part.inconc(f'hang in the logout race ({b})')
    finally:
        if x is not None: x.kill()
        shutil.rmtree(d, ignore_errors=True)
    return part

# ---------------------------------------------------------------- permission bits for every spelling of objectstore.umask
def w_perm(job):
    """two tokens; create / generate / copy / set / destroy, re-initialisation, restart; every file and directory below the token
    directory after every step; db back-end: the rollback journal is kept on disk by a crash point inside a C_CreateObject"""
    part = Part(); sp = job['umask']; b = job['backend']; um = umask_of(sp); d = os.path.join(job['scratch'], 'perm-%s-%s-%s' % (job['cfg'], b, sp)); shutil.rmtree(d, ignore_errors=True); os.makedirs(d)
    L = Lib(job, d, b, job['cfg'], '' if sp == 'default' else 'objectstore.umask = %s\n' % sp); tok = d + '/tokens'; roles = set(); exact = [False]
    def check(where):
        for p, st in persist.all_files(tok):
            mode = stat.S_IMODE(st.st_mode); r = 'dir' if stat.S_ISDIR(st.st_mode) else role(p); roles.add(r); part.case(('mode-bits', sp, b, r)); part.count('paths_statted')
            if mode == (0o777 if r == 'dir' else 0o666) & ~um: exact[0] = True
            if mode & um: part.violation(f'file-mode|{b},umask={sp},{r}|bits-outside-umask', f'a {r} below the token directory has permission bits outside objectstore.umask (written "{sp}", octal)', dict(mode=oct(mode), umask=oct(um), spelling=sp, where=where, backend=b))
    try:
        ck = L.ck; L.start(); L.init_token(b'perm-A', so=RSO, user=RUSER); L.init_token(b'perm-B', so=RSO, user=RUSER); check('after C_InitToken x2')
        S = L.login(b'perm-A', pin=RUSER); x = L.x; T = x.T; assert S is not None
        mk = lambda priv, lab: x.call('C_CreateObject', s=S, tmpl=T([('CKA_CLASS', ck.CKO_SECRET_KEY), ('CKA_KEY_TYPE', ck.CKK_GENERIC_SECRET), ('CKA_TOKEN', True), ('CKA_PRIVATE', priv), ('CKA_LABEL', lab), ('CKA_VALUE', os.urandom(32)), ('CKA_SENSITIVE', False), ('CKA_EXTRACTABLE', True)]))
        o1 = mk(True, b'o1'); o2 = mk(False, b'o2'); assert o1['rv'] == 0 and o2['rv'] == 0; check('C_CreateObject')
        g = x.call('C_GenerateKey', s=S, mech=x.M('CKM_AES_KEY_GEN'), tmpl=T([('CKA_TOKEN', True), ('CKA_PRIVATE', True), ('CKA_VALUE_LEN', 16), ('CKA_LABEL', b'g')])); check('C_GenerateKey')
        kp = x.call('C_GenerateKeyPair', s=S, mech=x.M('CKM_EC_KEY_PAIR_GEN'), pub=T([('CKA_TOKEN', True), ('CKA_EC_PARAMS', persist.P256)]), priv=T([('CKA_TOKEN', True), ('CKA_PRIVATE', True)])); check('C_GenerateKeyPair')
        src = x.call('C_CreateObject', s=S, tmpl=T([('CKA_CLASS', ck.CKO_DATA), ('CKA_PRIVATE', False), ('CKA_LABEL', b'src'), ('CKA_VALUE', b'v' * 40)]))
        x.call('C_CopyObject', s=S, o=src['h'], tmpl=T([('CKA_TOKEN', True), ('CKA_PRIVATE', True), ('CKA_LABEL', b'copy')])); x.call('C_CopyObject', s=S, o=o2['h'], tmpl=T([('CKA_LABEL', b'copy2')])); check('C_CopyObject')
        x.call('C_SetAttributeValue', s=S, o=o1['h'], tmpl=T([('CKA_ID', os.urandom(20)), ('CKA_LABEL', b'o1-renamed')])); check('C_SetAttributeValue')
        x.call('C_DestroyObject', s=S, o=o2['h']); check('C_DestroyObject')
        x.call('C_SetPIN', s=S, old=RUSER.hex(), new=RUSER.hex()); check('C_SetPIN')
        if b == 'db':
            # the rollback journal only exists inside a call: number the FS operations of a create, then die right after the first write to the journal
            x.raw(dict(fn='fs', mode='count', root=tok)); r = mk(True, b'o3'); tr = x.raw(dict(fn='fs', mode='trace'))['trace']; x.raw(dict(fn='fs', mode='off'))
            ks = [n for n, kind, path in tr if path.endswith('-journal') and kind in ('pwrite', 'write')]
            if r['rv'] == 0 and ks:
                x.raw(dict(fn='fs', mode='crash', root=tok, k=ks[0], when='after'))
                try: mk(True, b'o4'); part.observe('crash point inside the db create was not reached', {'spelling': sp})
                except Died: pass
                L.x = None; part.count('journals_seen', sum(1 for p, st in persist.all_files(tok) if role(p) == 'db-side-file')); check('inside C_CreateObject (journal kept by a crash point)')
                L.start(); S = L.login(b'perm-A', pin=RUSER); assert S is not None; x = L.x; T = x.T; check('after recovery of the hot journal')
            else: part.observe('no journal write seen in a db create', {'spelling': sp})
        # re-initialisation of the second token, then objects in it; restart in a new process
        slotB = L.slot_of(b'perm-B'); r = x.call('C_InitToken', slot=slotB, pin=RSO.hex(), label=b'perm-B2'.hex()); assert r['rv'] == 0, r; check('C_InitToken (re-initialisation)')
        h = x.call('C_OpenSession', slot=slotB)['h']; assert x.call('C_Login', s=h, user=0, pin=RSO.hex())['rv'] == 0; assert x.call('C_InitPIN', s=h, pin=RUSER.hex())['rv'] == 0; x.call('C_Logout', s=h)
        assert x.call('C_Login', s=h, user=1, pin=RUSER.hex())['rv'] == 0
        x.call('C_CreateObject', s=h, tmpl=T([('CKA_CLASS', ck.CKO_DATA), ('CKA_TOKEN', True), ('CKA_PRIVATE', True), ('CKA_LABEL', b'in-B'), ('CKA_VALUE', b'w' * 64)])); check('C_CreateObject in the re-initialised token')
        L.restart('newproc'); S = L.login(b'perm-A', pin=RUSER); x = L.x
        if S is not None: x.call('C_CreateObject', s=S, tmpl=x.T([('CKA_CLASS', ck.CKO_DATA), ('CKA_TOKEN', True), ('CKA_PRIVATE', True), ('CKA_LABEL', b'after-restart'), ('CKA_VALUE', b'x' * 64)]))
        check('new process')
        # the same process, re-initialised (C_Finalize / C_Initialize) after softhsm2.conf was given ANOTHER umask: everything created from now on follows the new text
        sp2 = '0027' if um == 0o077 else 'default'; um2 = umask_of(sp2); old_paths = {p for p, st in persist.all_files(tok)}
        assert x.call('C_Finalize')['rv'] == 0
        conf = open(d + '/softhsm2.conf').read(); conf = '\n'.join(l for l in conf.splitlines() if not l.startswith('objectstore.umask')) + '\n' + ('' if sp2 == 'default' else 'objectstore.umask = %s\n' % sp2)
        open(d + '/softhsm2.conf', 'w').write(conf); assert x.call('C_Initialize', locking='os')['rv'] == 0
        L.init_token(b'perm-C', so=RSO, user=RUSER); S = L.login(b'perm-C', pin=RUSER); assert S is not None
        x.call('C_CreateObject', s=S, tmpl=x.T([('CKA_CLASS', ck.CKO_DATA), ('CKA_TOKEN', True), ('CKA_PRIVATE', True), ('CKA_LABEL', b'after-reconfiguration'), ('CKA_VALUE', b'y' * 64)]))
        nnew = 0
        for p, st in persist.all_files(tok):
            if p in old_paths: continue
            mode = stat.S_IMODE(st.st_mode); r = 'dir' if stat.S_ISDIR(st.st_mode) else role(p); nnew += 1; part.case(('mode-bits-after-reconfiguration', sp, sp2, b, r)); part.count('paths_statted')
            if mode & um2: part.violation(f'file-mode|{b},umask-changed-between-initialisations,{r}|bits-outside-umask', f'a {r} created after C_Finalize / C_Initialize with a changed objectstore.umask ("{sp}" -> "{sp2}") has permission bits outside the umask now configured', dict(mode=oct(mode), umask_now=oct(um2), umask_before=oct(um), backend=b))
        if not nnew: part.inconc(f'permission job {b}/{sp}: nothing was created after the reconfiguration')
        need = {'dir', 'db'} if b == 'db' else {'dir', 'token.object', 'lock', 'object', 'generation'}
        if not need <= roles: part.inconc(f'permission job {b}/{sp}: kinds of path never seen: {sorted(need - roles)}')
        if exact[0]: part.distinct.add(('mode-control', sp, b))
        else: part.observe('control failed: no path carries exactly 0666/0777 & ~umask', {'spelling': sp, 'backend': b})
    except Died as e: part.observe('side:C17 library terminated the host', {'kind': e.kind(), 'fn': e.fn, 'where': e.where(), 'job': 'perm'}); part.inconc(f'executor died ({e.kind()} in {e.fn}) in the permission job {b}/{sp}')
    except Hang: part.inconc(f'executor hang in the permission job {b}/{sp}')
    except AssertionError as e: part.inconc(f'permission job {b}/{sp} could not continue: {e!r}')
    finally: L.stop()
    shutil.rmtree(d, ignore_errors=True); return part

def dispatch(job): return {'rng': w_rng, 'perm': w_perm, 'logout-race': w_logout_race}.get(job['kind'], w_history)(job)

def run(ctx):
    ctx.rule = ('one evaluation = one (recorded plaintext, directory scan) pair: after every step every file below the token directory is searched for every plaintext recorded so far '
                '(PINs and master key included); distinct = (class, store path, attribute, back-end) of recorded byte strings of private token objects that the API returned unchanged '
                '(>= 16 bytes, dates 8 bytes); the decoder, IV and mode-bit oracles run on the same snapshots and are counted in values_decrypted / ivs_checked / paths_statted')
    cfgs = ['asan'] + ([] if ctx.quick else ['botan']); ctx.need(*cfgs); common = dict(paths=ctx.paths, hdr=ctx.paths['asan']['hdr'], scratch=ctx.scratch); jobs = []; n = 0
    for backend in ('file', 'db'):
        for um in ('default', '27', '7', '0'):
            for cfg in cfgs:
                n += 1; jobs.append(dict(common, kind='systematic', systematic=True, seed=ctx.seed * 100003 + n, steps=0, backend=backend, umask=um, cfg=cfg))
    nh = ctx.q(40, 1000); steps = ctx.q(40, 50); ums = list(UMASKS)
    for i in range(nh):
        jobs.append(dict(common, kind='history', seed=ctx.seed * 100003 + 1000 + i, steps=steps, backend=('file', 'db')[i % 2], umask=ums[(i // 2) % len(ums)], cfg='asan' if (ctx.quick or i % 5) else 'botan'))
    for backend in ('file', 'db'):
        for call in RNG_CALLS: jobs.append(dict(common, kind='rng', call=call, backend=backend, cfg='asan', seed=ctx.seed * 100003 + 5000 + len(jobs)))
    for backend in ('file', 'db'):
        for sp in SPELLINGS:
            for cfg in cfgs: jobs.append(dict(common, kind='perm', backend=backend, umask=sp, cfg=cfg))
    for i in range(ctx.q(8, 32)): jobs.append(dict(common, kind='logout-race', backend='file' if i % 3 else 'db', seed=ctx.seed * 1000 + 700 + i, iters=ctx.q(25, 40), yield_p=[0.2, 0.04, 0.5][i % 3], yield_us=[150, 8000, 40][i % 3], umask='default', cfg='asan'))
    jobs.sort(key=lambda j: 0 if j.get('systematic') else 1)          # the long jobs first
    for part in pmap(dispatch, jobs, ctx.nproc): ctx.merge(part)
    ctx.assumptions += ['scans look for verbatim byte strings of >= 16 bytes (dates: 8 bytes from ~3 million values); transformed leaks are out of reach',
                        'files are read after each call returns; SQLite journals that exist only during a call are not seen',
                        'public halves of generated key pairs are made private or kept as session objects, so that modulus / EC point are not legitimately on disk in clear; curve OIDs, public exponents and DH group constants are not recorded',
                        'C_CopyObject private->private (which duplicates the stored blob and its IV) is not a quantified path and is not exercised',
                        'RNG fault sweep (OpenSSL builds only; beyond the property\'s stated quantifier, in the style of fault_sequences): each RAND_bytes request made by a storing call fails once in turn; a call that fails is fine, '
                        'only a blob stored under an all-zero or duplicate IV (or a value in clear) counts; a process death there is a C17 observation',
                        'the executor runs with process umask 0, so mode bits on disk are the library\'s own masking']
if __name__ == '__main__': main('C06', run, level='exploration', min_evaluations=20000, min_distinct=150)
