#!/usr/bin/env python3
"""C05 - token objects persist durably, faithfully and in a stable on-disk format.

(a) histories of create / generate / copy / set / destroy on token AND session objects of every class and attribute kind
    (bool, ulong, byte strings 0 B .. 400 KiB, mechanism sets, nested templates, dates), with restarts interleaved
    (C_Finalize/C_Initialize in the same process, and a NEW executor process on the same directory); after every restart
    C_FindObjects + C_GetAttributeValue of EVERY attribute of every object must equal the model (tag -> attribute dict);
    destroyed objects never reappear, session objects never survive their session or a restart;
(b) the independent decoders (vlib/objfile.py, dbfile.py, tokenkey.py) read the directory back to the API values
    (private values through the PIN-derived master key);
(c) golden fixtures written by the pinned version (fixtures/{file,db}/{openssl,botan}): copied to scratch, opened by the
    current build, PINs must log in, token info and every attribute of every object must equal expect.json; then the
    token must stay usable (modify + restart + compare again);
(d) FS faults: every FS operation of C_CreateObject / C_SetAttributeValue / C_DestroyObject / C_CopyObject on a token object
    fails in turn with EIO and ENOSPC; `rv == CKR_OK` => the effect is present after a fault-free restart (new process)."""
import sys, os; sys.path.insert(0, os.path.join(os.path.dirname(os.path.abspath(__file__)), '..', 'vlib'))
import json, random, shutil, struct
from harness import main, Part, pmap, VERIF
from walkcheck import make_new_exec
from p11client import Died, Hang
from ck import CK
import persist
from persist import UNAVAILABLE, ApiError, Lib

SO = persist.SO; USER = persist.USER
CLASSES = ['data', 'data', 'cert-x509', 'cert-pgp', 'sk-aes', 'sk-aes', 'sk-des3', 'sk-des2', 'sk-generic', 'sk-hmac', 'pub-rsa', 'pub-dsa', 'pub-ec', 'pub-dh', 'pub-ed',
           'priv-rsa', 'priv-dsa', 'priv-ec', 'priv-dh', 'priv-ed', 'dom-dsa', 'dom-dh']

def sizes(rnd):
    r = rnd.random()
    if r < .10: return 0
    if r < .20: return 1
    if r < .62: return rnd.randrange(2, 65)
    if r < .90: return rnd.choice((4096, rnd.randrange(65, 4097)))
    if r < .975: return rnd.randrange(4097, 65537)
    return rnd.randrange(300 * 1024, 400 * 1024)

def kind_of(name, v):
    """attribute kind + size class of a template value"""
    if isinstance(v, bool): return ('bool', '-')
    if isinstance(v, int): return ('ulong', '-')
    if isinstance(v, (bytes, bytearray)): return ('date' if name in persist.DATE_ATTRS else 'bytes', persist.size_class(len(v)))
    if isinstance(v, list) and name not in persist.TEMPLATE_ATTRS and (not v or isinstance(v[0], int)): return ('mechset', '-')
    return ('template', str(len(v)))

class Obj:
    def __init__(s, tag, cls, token, private, origin, owner=None):
        s.tag = tag; s.cls = cls; s.token = token; s.private = private; s.origin = origin; s.owner = owner; s.exp = {}; s.hidden = {}; s.writer = {}; s.kinds = {}; s.alive = True; s.h = None; s.destroyed = False; s.broken = False

def problem_class(p):
    for needle, c in (('boolean', 'non-canonical-boolean'), ('duplicate', 'duplicate-attribute'), ('mechanism set', 'mechanism-set-encoding'), (' is valid-prefix', 'object-file-truncated'), (' is invalid', 'object-file-invalid'),
                      (' is empty', 'object-file-empty'), ('missing table', 'missing-table'), ('token object', 'token-object')):
        if needle in p: return c
    return 'format-problem'

def tag_of(attrs):
    l = attrs.get('CKA_LABEL')
    return l.split(b'|')[0] if isinstance(l, bytes) else None

def W(v):
    """witness form"""
    return persist.short(v) if not isinstance(v, str) else v

class History:
    def __init__(s, job, part, L, rnd):
        s.job = job; s.part = part; s.L = L; s.rnd = rnd; s.ck = L.ck; s.backend = L.backend; s.M = {}; s.n = 0; s.S = None; s.S2 = None; s.label = b'c05-%d' % job['seed']
        s.gen = persist.ObjGen(s.ck, rnd, sizes); s.trace = []
    def x(s): return s.L.x
    def T(s, t): return s.L.x.T(t)
    def newtag(s): s.n += 1; return b't%04d' % s.n
    def V(s, key, what, **w):
        s.part.violation(key, what, dict(w, seed=s.job['seed'], backend=s.backend, history_tail=s.trace[-25:]))
    def open(s):
        s.S = s.L.login(s.label); assert s.S is not None, 'user login failed'
        slot = s.L.slot_of(s.label); s.S2 = s.x().call('C_OpenSession', slot=slot)['h']
    # ---- model maintenance
    def adopt(s, o, h, tmpl, call, base=None, src_token=None):
        """after a successful call: snapshot through the API; the model is the snapshot (+ what the template promised)"""
        o.h = h; promised = persist.template_api_form(s.ck, tmpl)
        try: snap = s.L.read(s.S, h)
        except ApiError as e:
            # the object cannot even be read right after the call that made it
            if base is not None: s.V(f'{call}|{s.backend}|attributes-not-copied', 'C_CopyObject returned CKR_OK but the new object has none of the attribute values of the original', cls=o.cls, unreadable=str(e))
            else: s.part.observe('object unreadable right after %s (outside C05)' % call, {'class': o.cls, 'error': str(e)})
            o.alive = False; o.h = None; o.broken = True; return
        for a, v in promised.items():
            g = snap.get(a)
            if g == UNAVAILABLE: o.hidden[a] = v
            elif g != v: s.part.observe('read-back right after %s differs from the template (outside C05)' % call, {'class': o.cls, 'attr': a})
            o.writer[a] = call
        for a, v in tmpl: o.kinds[a] = kind_of(a, v)
        if base is not None:
            want = dict(base); want.update({a: v for a, v in promised.items() if snap.get(a) != UNAVAILABLE})
            d = persist.diff_attrs(want, snap)
            if d:
                # one key per back-end: a copy either carries the attributes of the original or it does not (the witness names them)
                s.V(f'{call}|{s.backend}|attributes-not-copied', 'C_CopyObject returned CKR_OK but attribute values of the original are missing or different in the new object', cls=o.cls, source='token' if src_token else 'session',
                    attrs=[(a, W(w), W(g)) for a, w, g in d][:12])
                o.alive = False; o.h = None; o.broken = True      # its later fate says nothing new
        o.exp = snap
    # ---- operations
    def op_create(s, token=None, sess=None):
        rnd = s.rnd; token = (rnd.random() < .8) if token is None else token; sess = sess or s.S; cls = rnd.choice(CLASSES); private = rnd.random() < .5; tag = s.newtag()
        tmpl = s.gen.template(cls, token, private, tag); s.trace.append(('create', cls, token, private, tag.decode()))
        r = s.x().call('C_CreateObject', s=sess, tmpl=s.T(tmpl)); s.part.count('calls_create')
        if r['rv'] != 0: s.part.count('refused_create'); s.part.observe('refused C_CreateObject (no verdict)', {'class': cls, 'rv': r['rvname']}); return
        o = Obj(tag, cls, token, private, 'C_CreateObject', owner=sess); s.M[tag] = o; s.adopt(o, r['h'], tmpl, 'C_CreateObject')
    def create_with(s, cls, private, extra):
        """a token object whose storage flags are exactly `extra` (deterministic part: each flag alone, both back-ends)"""
        tag = s.newtag(); tmpl = [(a, v) for a, v in s.gen.template(cls, True, private, tag, rich=False) if a not in persist.STORAGE_BOOLS] + list(extra); s.trace.append(('create', cls, True, private, tag.decode(), [a for a, v in extra]))
        r = s.x().call('C_CreateObject', s=s.S, tmpl=s.T(tmpl)); s.part.count('calls_create')
        if r['rv'] != 0: s.part.inconc(f'storage-flag object refused: {cls} {extra} {r["rvname"]}'); return
        o = Obj(tag, cls, True, private, 'C_CreateObject', owner=s.S); s.M[tag] = o; s.adopt(o, r['h'], tmpl, 'C_CreateObject')
        for a, v in extra: s.part.distinct.add(('storage-flag', a, v, cls, s.backend))
    def op_generate(s):
        rnd = s.rnd; ck = s.ck; token = rnd.random() < .8; tag = s.newtag(); k = rnd.choice(('aes', 'aes', 'generic', 'des3', 'ec', 'ec', 'rsa', 'ed')); s.trace.append(('generate', k, token, tag.decode()))
        common = lambda t, priv: [('CKA_TOKEN', token), ('CKA_PRIVATE', priv), ('CKA_LABEL', t + b'|' + s.gen.fresh(8)), ('CKA_ID', s.gen.fresh(rnd.choice((0, 1, 20))))]
        if k in ('aes', 'generic', 'des3'):
            private = rnd.random() < .5; tmpl = common(tag, private) + [('CKA_SENSITIVE', False), ('CKA_EXTRACTABLE', True)] + ([('CKA_VALUE_LEN', rnd.choice((16, 32)) if k == 'aes' else rnd.randrange(1, 200))] if k != 'des3' else [])
            mech = {'aes': 'CKM_AES_KEY_GEN', 'generic': 'CKM_GENERIC_SECRET_KEY_GEN', 'des3': 'CKM_DES3_KEY_GEN'}[k]
            sess = s.S2 if (not token and rnd.random() < .6) else s.S
            r = s.x().call('C_GenerateKey', s=sess, mech=s.x().M(mech), tmpl=s.T(tmpl)); s.part.count('calls_generate')
            if r['rv'] != 0: s.part.count('refused_generate'); return
            o = Obj(tag, 'gen-' + k, token, private, 'C_GenerateKey', owner=sess); s.M[tag] = o; s.adopt(o, r['h'], tmpl, 'C_GenerateKey')
        else:
            tag2 = s.newtag(); mech, pubx = {'ec': ('CKM_EC_KEY_PAIR_GEN', [('CKA_EC_PARAMS', rnd.choice((persist.P256, persist.P384)))]), 'ed': ('CKM_EC_EDWARDS_KEY_PAIR_GEN', [('CKA_EC_PARAMS', persist.ED25519)]),
                                            'rsa': ('CKM_RSA_PKCS_KEY_PAIR_GEN', [('CKA_MODULUS_BITS', 1024), ('CKA_PUBLIC_EXPONENT', b'\x01\x00\x01')])}[k]
            pubpriv = rnd.random() < .3; pub = common(tag, pubpriv) + pubx; priv = common(tag2, True) + [('CKA_SENSITIVE', False), ('CKA_EXTRACTABLE', True)]
            sess = s.S2 if (not token and rnd.random() < .6) else s.S
            r = s.x().call('C_GenerateKeyPair', s=sess, mech=s.x().M(mech), pub=s.T(pub), priv=s.T(priv)); s.part.count('calls_generate')
            if r['rv'] != 0: s.part.count('refused_generate'); return
            o1 = Obj(tag, 'gen-pub-' + k, token, pubpriv, 'C_GenerateKeyPair', owner=sess); o2 = Obj(tag2, 'gen-priv-' + k, token, True, 'C_GenerateKeyPair', owner=sess); s.M[tag] = o1; s.M[tag2] = o2
            s.adopt(o1, r['hpub'], pub, 'C_GenerateKeyPair'); s.adopt(o2, r['hpriv'], priv, 'C_GenerateKeyPair')
    def pick(s, pred):
        c = [o for o in s.M.values() if o.alive and o.h is not None and pred(o)]
        return s.rnd.choice(c) if c else None
    def op_copy(s):
        rnd = s.rnd; src = s.pick(lambda o: o.exp.get('CKA_COPYABLE') == b'\x01')
        if src is None: return
        tag = s.newtag(); token = rnd.random() < .8; tmpl = [('CKA_LABEL', tag + b'|' + s.gen.fresh(6)), ('CKA_TOKEN', token)]; private = src.private
        if not src.private and rnd.random() < .4: tmpl.append(('CKA_PRIVATE', True)); private = True
        if 'CKA_ID' in src.exp and rnd.random() < .4: tmpl.append(('CKA_ID', s.gen.bstr()))
        s.trace.append(('copy', src.tag.decode(), src.cls, 'token' if src.token else 'session', '->', tag.decode(), token, private))
        sess = s.S2 if (not token and rnd.random() < .6) else s.S
        r = s.x().call('C_CopyObject', s=sess, o=src.h, tmpl=s.T(tmpl)); s.part.count('calls_copy')
        if r['rv'] != 0: s.part.count('refused_copy'); s.part.observe('refused C_CopyObject (no verdict)', {'class': src.cls, 'rv': r['rvname'], 'backend': s.backend}); return
        o = Obj(tag, src.cls, token, private, 'C_CopyObject', owner=sess); o.hidden = dict(src.hidden); o.kinds = dict(src.kinds); o.writer = {a: 'C_CopyObject' for a in src.exp}; s.M[tag] = o
        s.adopt(o, r['h'], tmpl, 'C_CopyObject', base=src.exp, src_token=src.token)
    def op_set(s):
        rnd = s.rnd; o = s.pick(lambda o: o.token and o.cls in s.gen.table and o.exp.get('CKA_MODIFIABLE') == b'\x01')
        if o is None: return
        cand = s.gen.settable(o.cls) + [('CKA_LABEL', o.tag + b'|' + s.gen.bstr())]; tmpl = rnd.sample(cand, min(len(cand), rnd.randrange(1, 4)))
        s.trace.append(('set', o.tag.decode(), o.cls, [a for a, v in tmpl]))
        r = s.x().call('C_SetAttributeValue', s=s.S, o=o.h, tmpl=s.T(tmpl)); s.part.count('calls_set')
        if r['rv'] != 0:
            s.part.count('refused_set'); snap = s.L.read(s.S, o.h)
            if snap != o.exp: s.part.observe('side:C09 a refused C_SetAttributeValue changed the token object', {'class': o.cls, 'attrs': [a for a, v in tmpl], 'rv': r['rvname']}); o.exp = snap
            return
        s.adopt(o, o.h, tmpl, 'C_SetAttributeValue')
    def op_destroy(s):
        o = s.pick(lambda o: o.exp.get('CKA_DESTROYABLE') == b'\x01')
        if o is None: return
        s.trace.append(('destroy', o.tag.decode(), o.cls, 'token' if o.token else 'session'))
        r = s.x().call('C_DestroyObject', s=s.S, o=o.h); s.part.count('calls_destroy')
        if r['rv'] != 0: s.part.count('refused_destroy'); return
        o.alive = False; o.destroyed = True; o.h = None
    def op_close_s2(s):
        """session objects never outlive their session"""
        s.trace.append(('close-second-session',)); mine = [o for o in s.M.values() if o.alive and not o.token and o.owner == s.S2]
        r = s.x().call('C_CloseSession', s=s.S2); assert r['rv'] == 0, r
        rv, hs = s.x().findall(s.S); tags = set()
        for h in hs:
            rv, v = s.x().getattrs(s.S, h, ['CKA_LABEL'], cap=512); tags.add((v.get('CKA_LABEL') or b'').split(b'|')[0])
        for o in mine:
            s.part.case(('session-object', o.cls, 'close-session', s.backend))
            if o.tag in tags: s.V(f'{o.origin}|session-object,close-owner|outlives-its-session', f'a session object made by {o.origin} is still found from another session after its own session was closed', cls=o.cls)
            o.alive = False; o.h = None
        s.S2 = s.x().call('C_OpenSession', slot=s.L.slot_of(s.label))['h']
    # ---- the oracles
    def check_disk(s, where):
        """(b) the independent decoders must read the directory back to the API values"""
        part = s.part; toks = persist.read_disk(s.L.d + '/tokens', s.backend, s.L.d); t = [t for t in toks if t.info and t.info.label and t.info.label.rstrip(b' ') == s.label]
        if len(t) != 1: s.V(f'decoder|{s.backend}|token-not-decodable', 'the independent decoder does not find the token in the directory', found=len(t), problems=[p for x in toks for p in x.problems][:5]); return
        t = t[0]
        for p in t.problems: s.V(f'decoder|{s.backend}|{problem_class(p)}', 'the independent decoder objects to the stored format: ' + p, where=where)
        for (oid, ty), n in sorted(t.dups.items()):
            s.V(f'decoder|{s.backend},{s.ck.ATTR.get(ty, hex(ty))}|duplicate-attribute-rows', 'the token database holds more than one row for one (object, attribute type): the stored value is ambiguous', rows=n, where=where)
        mk = t.master_key(USER); mk2 = t.master_key(SO, so=True)
        if mk is None or mk != mk2: s.V(f'decoder|{s.backend}|master-key-not-recovered', 'the PIN blobs do not unwrap to one master key with the right PINs', user=bool(mk), so=bool(mk2)); return
        if t.master_key(USER + b'x') is not None: s.V(f'decoder|{s.backend}|master-key-without-pin', 'a wrong PIN unwraps the master key')
        disk = {}
        for o in t.objects:
            v, probs = o.api_view(mk, s.ck); tg = tag_of(v); mo = s.M.get(tg)
            for p in probs:
                if mo is not None and mo.alive and not mo.broken: s.V(f'decoder|{s.backend}|private-value-does-not-decrypt', p, where=where)
                else: part.observe('stored object outside the model does not decrypt (left by a broken copy or a refused call)', {'backend': s.backend, 'problem': p[:80]})
            if tg is not None and tg in disk: s.V(f'decoder|{s.backend}|duplicate-object-on-disk', 'two stored objects carry the same tag', tag=tg)
            disk[tg] = v
        for tag, o in s.M.items():
            if not o.token:
                if tag in disk: s.V(f'decoder|{s.backend},{o.cls}|session-object-on-disk', 'a session object was written to the token directory')
                continue
            if not o.alive:
                if tag in disk and o.destroyed: s.V(f'decoder|{s.backend},{o.cls}|destroyed-object-still-on-disk', 'a destroyed object is still stored', where=where)
                continue
            part.case(('decoder', o.cls, s.backend, 'private' if o.private else 'public'))
            if tag not in disk: s.V(f'decoder|{s.backend},{o.cls}|object-not-on-disk', 'a live token object is not in the directory (as decoded independently)', where=where, origin=o.origin); continue
            for a, w in o.exp.items():
                w = o.hidden.get(a) if w == UNAVAILABLE else w
                if w is None: continue
                g = disk[tag].get(a, '<absent>')
                if g != w: s.V(f'decoder|{s.backend},{a}|disk-differs-from-api', f'{a} as decoded from the directory differs from what the API returns', cls=o.cls, private=o.private, api=W(w), disk=W(g), where=where)
                part.count('decoder_values')
    def check_after_restart(s, kind):
        """(a) every token object equals the model, nothing destroyed or session-only is back"""
        part = s.part; s.open(); rv, hs = s.x().findall(s.S); by = {}
        if rv != 'CKR_OK': s.V(f'C_FindObjectsInit|{s.backend}|fails-after-restart', 'objects cannot be enumerated after a restart', rv=rv); return
        for h in hs:
            try: attrs = s.L.read(s.S, h)
            except ApiError as e:
                rv2, v = s.x().getattrs(s.S, h, ['CKA_LABEL'], cap=512); tg = (v.get('CKA_LABEL') or b'?').split(b'|')[0]; o = s.M.get(tg)
                if o is None or o.broken or not o.alive: part.observe('unreadable object of unknown origin after a restart (left by a broken copy or a refused call)', {'backend': s.backend, 'error': str(e)})
                else: s.V(f'{o.origin}|{s.backend},{o.cls}|unreadable-after-restart', 'an object cannot be read back after a restart: %s' % e, restart=kind)
                by[tg] = (h, None); continue
            tg = tag_of(attrs)
            if tg is not None and tg in by: s.V(f'C_FindObjects|{s.backend}|duplicate-object-after-restart', 'the same object is returned twice after a restart', tag=tg)
            by[tg] = (h, attrs)
        for tag, o in s.M.items():
            if o.token and o.alive:
                part.case(None)
                for a, (k, sz) in o.kinds.items(): part.distinct.add((o.cls, k, sz, s.backend, kind))
                if tag not in by:
                    s.V(f'{o.origin}|{s.backend},{o.cls}|lost-after-restart', f'a {o.cls} token object made by {o.origin} is gone after a restart', restart=kind, tag=tag); o.alive = False; o.h = None; continue
                o.h, got = by[tag]
                if got is None: continue
                for a, w, g in persist.diff_attrs(o.exp, got):
                    s.V(f'{o.writer.get(a, o.origin)}|{s.backend},{a}|differs-after-restart', f'{a} of a token object differs after a restart', cls=o.cls, private=o.private, restart=kind, before=W(w), after=W(g), written_by=o.writer.get(a, o.origin))
                o.exp = got; part.count('values_compared', len(got))
            elif not o.broken:
                if tag in by:
                    if o.token: s.V(f'C_DestroyObject|{s.backend},{o.cls}|reappears-after-restart', 'a destroyed token object is back after a restart', restart=kind)
                    else: s.V(f'{o.origin}|{s.backend},session-object|survives-restart', 'a session object is found after a restart', restart=kind, cls=o.cls)
                if not o.token and o.alive: part.case(('session-object', o.cls, kind, s.backend)); o.alive = False; o.h = None
        for tg in by:
            if tg not in s.M: part.observe('object of unknown origin after a restart (C09: residue of a refused call?)', {'tag': repr(tg), 'backend': s.backend})
    def restart(s, kind):
        s.trace.append(('restart', kind)); s.check_disk('before ' + kind); s.L.restart(kind); s.part.count('restarts_' + kind); s.check_after_restart(kind)
    def run(s, steps):
        s.L.start(); s.L.init_token(s.label); s.open()
        ops = [(s.op_create, 9), (s.op_generate, 1.5), (s.op_copy, 2.5), (s.op_set, 5), (s.op_destroy, 3), (s.op_close_s2, 1), (lambda: s.op_create(token=False, sess=s.S2), 1.5), (lambda: s.restart('reinit'), 1.3), (lambda: s.restart('newproc'), 1.3)]
        fns = [f for f, w in ops]; ws = [w for f, w in ops]
        for i in range(steps): s.rnd.choices(fns, ws)[0]()
        s.restart('newproc'); s.check_disk('end')

def w_flags(job):
    """CKA_MODIFIABLE / CKA_COPYABLE / CKA_DESTROYABLE = false, each alone and together, on token objects of several classes: unchanged after both kinds of restart"""
    part = Part(); d = os.path.join(job['scratch'], 'flags-%s-%s' % (job['backend'], job['cfg'])); shutil.rmtree(d, ignore_errors=True); os.makedirs(d); L = Lib(job, d, job['backend'], job['cfg'])
    h = History(job, part, L, random.Random(job['seed']))
    try:
        L.start(); L.init_token(h.label); h.open()
        for cls in ('data', 'sk-aes', 'cert-x509', 'priv-ec', 'pub-rsa', 'dom-dh'):
            for private in (False, True):
                for extra in ([('CKA_MODIFIABLE', False)], [('CKA_COPYABLE', False)], [('CKA_DESTROYABLE', False)], [('CKA_MODIFIABLE', False), ('CKA_COPYABLE', False), ('CKA_DESTROYABLE', False)], [('CKA_MODIFIABLE', True), ('CKA_COPYABLE', True), ('CKA_DESTROYABLE', True)]):
                    h.create_with(cls, private, extra)
        h.restart('newproc'); h.restart('reinit'); h.restart('newproc'); h.check_disk('end')
        # the flags must also still be honoured by the new process (a flag that reads back but is ignored has not persisted either)
        o = [o for o in h.M.values() if o.alive and o.exp.get('CKA_DESTROYABLE') == b'\x00'][0]; r = L.x.call('C_DestroyObject', s=h.S, o=o.h)
        if r['rv'] == 0: h.V(f'C_CreateObject|{h.backend},CKA_DESTROYABLE|not-honoured-after-restart', 'an object created with CKA_DESTROYABLE=false can be destroyed after a restart', cls=o.cls)
        part.case(('storage-flag', 'destroy-refused', h.backend))
    except Died as e: part.observe('side:C17 library terminated the host', {'kind': e.kind(), 'fn': e.fn, 'where': e.where()}); part.inconc(f'executor died ({e.kind()} in {e.fn}) in the storage-flag job')
    except Hang: part.inconc('executor hang in the storage-flag job')
    except AssertionError as e: part.inconc(f'storage-flag job set-up failed: {e!r}')
    finally: L.stop()
    shutil.rmtree(d, ignore_errors=True); return part

SESS_PATHS = ('C_CreateObject', 'C_CreateObject/private', 'C_CopyObject/token-source', 'C_CopyObject/session-source', 'C_GenerateKey', 'C_GenerateKeyPair/both', 'C_GenerateKeyPair/public-half', 'C_GenerateKeyPair/private-half',
              'C_UnwrapKey', 'C_DeriveKey')
def w_sessobj(job):
    """session objects never outlive their session: they are made by EVERY path in sessions opened at various points of the history
    (after object handles were issued and other sessions were opened/closed, so that PKCS#11 handles and internal session slots
    differ); after C_CloseSession of the owner (others still open), C_CloseAllSessions, the last close and C_Finalize/C_Initialize a
    search from every remaining and every new session must not return them (by unique tag), while token objects survive"""
    part = Part(); b = job['backend']; d = os.path.join(job['scratch'], 'sess-%s-%s-%d' % (b, job['cfg'], job['seed'])); shutil.rmtree(d, ignore_errors=True); os.makedirs(d); L = Lib(job, d, b, job['cfg']); label = b'c05-sess'; n = [0]
    rnd = random.Random(job['seed'])
    def tags_seen(S):
        rv, hs = L.x.findall(S); out = set()
        for h in hs:
            rv2, v = L.x.getattrs(S, h, ['CKA_LABEL'], cap=256); out.add((v.get('CKA_LABEL') or b'?').split(b'|')[0])
        return out
    try:
        ck = L.ck; L.start(); L.init_token(label); x = L.x; T = x.T; slot = L.slot_of(label)
        def tag(): n[0] += 1; return b's%04d' % n[0]
        def make(S, S0, path, token_objs):
            """-> [(tag, path)] of SESSION objects made in session S by `path` (S0: a long-lived session that holds the helper keys)"""
            tg = tag(); lab = ('CKA_LABEL', tg + b'|' + os.urandom(6)); out = [(tg, path)]
            sk = lambda priv: [('CKA_CLASS', ck.CKO_SECRET_KEY), ('CKA_KEY_TYPE', ck.CKK_GENERIC_SECRET), ('CKA_TOKEN', False), ('CKA_PRIVATE', priv), lab, ('CKA_VALUE', os.urandom(32)), ('CKA_SENSITIVE', False), ('CKA_EXTRACTABLE', True)]
            if path == 'C_CreateObject': r = x.call('C_CreateObject', s=S, tmpl=T(sk(False)))
            elif path == 'C_CreateObject/private': r = x.call('C_CreateObject', s=S, tmpl=T(sk(True)))
            elif path == 'C_CopyObject/token-source': r = x.call('C_CopyObject', s=S, o=token_objs['pub-token-src'], tmpl=T([lab, ('CKA_TOKEN', False)]))
            elif path == 'C_CopyObject/session-source':
                src = x.call('C_CreateObject', s=S0, tmpl=T([('CKA_CLASS', ck.CKO_DATA), ('CKA_PRIVATE', False), ('CKA_LABEL', b'src-in-S0'), ('CKA_VALUE', b'v' * 20)]))['h']; r = x.call('C_CopyObject', s=S, o=src, tmpl=T([lab])); x.call('C_DestroyObject', s=S0, o=src)
            elif path == 'C_GenerateKey': r = x.call('C_GenerateKey', s=S, mech=x.M('CKM_AES_KEY_GEN'), tmpl=T([('CKA_TOKEN', False), ('CKA_PRIVATE', False), lab, ('CKA_VALUE_LEN', 16)]))
            elif path.startswith('C_GenerateKeyPair'):
                tg2 = tag(); pub_tok = path.endswith('private-half'); prv_tok = path.endswith('public-half'); out = []
                r = x.call('C_GenerateKeyPair', s=S, mech=x.M('CKM_EC_KEY_PAIR_GEN'), pub=T([('CKA_TOKEN', pub_tok), ('CKA_PRIVATE', False), ('CKA_EC_PARAMS', persist.P256), lab]), priv=T([('CKA_TOKEN', prv_tok), ('CKA_PRIVATE', False), ('CKA_LABEL', tg2 + b'|' + os.urandom(6))]))
                if r['rv'] == 0:
                    (token_objs['extra'] if pub_tok else out).append((tg, path)); (token_objs['extra'] if prv_tok else out).append((tg2, path))
            elif path == 'C_UnwrapKey':
                K = x.call('C_CreateObject', s=S0, tmpl=T([('CKA_CLASS', ck.CKO_SECRET_KEY), ('CKA_KEY_TYPE', ck.CKK_GENERIC_SECRET), ('CKA_VALUE', os.urandom(32)), ('CKA_EXTRACTABLE', True), ('CKA_SENSITIVE', False), ('CKA_PRIVATE', False), ('CKA_LABEL', b'k-in-S0')]))['h']
                w = x.call('C_WrapKey', s=S0, mech=x.M('CKM_AES_KEY_WRAP'), wkey=token_objs['W'], key=K, buf=256); x.call('C_DestroyObject', s=S0, o=K)
                r = x.call('C_UnwrapKey', s=S, mech=x.M('CKM_AES_KEY_WRAP'), ukey=token_objs['W'], wrapped=w['out'].get('data', ''), tmpl=T([('CKA_CLASS', ck.CKO_SECRET_KEY), ('CKA_KEY_TYPE', ck.CKK_GENERIC_SECRET), ('CKA_TOKEN', False), ('CKA_PRIVATE', False), lab]))
            elif path == 'C_DeriveKey':
                r = x.call('C_DeriveKey', s=S, mech=x.M('CKM_AES_ECB_ENCRYPT_DATA', kdstr=os.urandom(32).hex()), key=token_objs['W'], tmpl=T([('CKA_CLASS', ck.CKO_SECRET_KEY), ('CKA_KEY_TYPE', ck.CKK_GENERIC_SECRET), ('CKA_VALUE_LEN', 32), ('CKA_TOKEN', False), ('CKA_PRIVATE', False), lab]))
            if r['rv'] != 0: part.inconc(f'session-object job: {path} refused ({r["rvname"]})'); return []
            return out
        for event in ('close-owner', 'close-owner', 'close-all', 'last-close', 'reinit'):
            # sessions opened at various points: object handles are issued in between, an earlier session is closed so that its internal slot is reused
            S0 = L.login(label); assert S0 is not None; tok = {'extra': []}
            for i in range(rnd.randrange(1, 4)):
                tg = tag(); r = x.call('C_CreateObject', s=S0, tmpl=T([('CKA_CLASS', ck.CKO_DATA), ('CKA_TOKEN', True), ('CKA_PRIVATE', i % 2 == 1), ('CKA_LABEL', tg + b'|tok'), ('CKA_VALUE', os.urandom(30))])); assert r['rv'] == 0, r; tok['extra'].append((tg, 'token'))
            tg = tag(); r = x.call('C_CreateObject', s=S0, tmpl=T([('CKA_CLASS', ck.CKO_DATA), ('CKA_TOKEN', True), ('CKA_PRIVATE', False), ('CKA_LABEL', tg + b'|src'), ('CKA_VALUE', os.urandom(30))])); assert r['rv'] == 0, r; tok['pub-token-src'] = r['h']; tok['extra'].append((tg, 'token'))
            tg = tag(); r = x.call('C_CreateObject', s=S0, tmpl=T([('CKA_CLASS', ck.CKO_SECRET_KEY), ('CKA_KEY_TYPE', ck.CKK_AES), ('CKA_TOKEN', True), ('CKA_PRIVATE', False), ('CKA_LABEL', tg + b'|W'), ('CKA_VALUE', os.urandom(32)), ('CKA_WRAP', True), ('CKA_UNWRAP', True), ('CKA_DERIVE', True)])); assert r['rv'] == 0, r
            tok['W'] = r['h']; tok['extra'].append((tg, 'token'))
            A = x.call('C_OpenSession', slot=slot)['h']; B = x.call('C_OpenSession', slot=slot, flags=4)['h']; x.call('C_CreateObject', s=A, tmpl=T([('CKA_CLASS', ck.CKO_DATA), ('CKA_LABEL', b'filler'), ('CKA_VALUE', b'f')]))
            if rnd.random() < .7: x.call('C_CloseSession', s=A); A = None
            owners = [x.call('C_OpenSession', slot=slot)['h']]                                   # opened after object handles were issued (and after a close: the internal slot is reused)
            x.call('C_CreateObject', s=S0, tmpl=T([('CKA_CLASS', ck.CKO_DATA), ('CKA_LABEL', b'filler2'), ('CKA_VALUE', b'f')])); owners.append(x.call('C_OpenSession', slot=slot)['h'])
            made = []
            for i, path in enumerate(SESS_PATHS): made += make(owners[i % 2] if event != 'last-close' else owners[0], S0, path, tok)
            before = tags_seen(S0)
            lost = [(tg, path) for tg, path in made if tg not in before]; made = [m for m in made if m not in lost]
            for tg, path in lost: part.observe('control failed: a fresh session object is not found by its tag before the event (db back-end: copies of token objects are broken, see C05|C_CopyObject|db|attributes-not-copied)', {'path': path, 'backend': b}, cap=4)
            if len(lost) > 1: part.inconc(f'session-object job: {len(lost)} fresh session objects not visible before {event}: {[p for t_, p in lost]}')
            # the event
            if event == 'close-owner':
                for o in owners: assert x.call('C_CloseSession', s=o)['rv'] == 0
                observers = [('remaining', S0), ('remaining-ro', B), ('new', x.call('C_OpenSession', slot=slot)['h'])]
            elif event == 'close-all':
                assert x.call('C_CloseAllSessions', slot=slot)['rv'] == 0; observers = [('new', L.login(label)), ('new-2', x.call('C_OpenSession', slot=slot)['h'])]
            elif event == 'last-close':
                for h in [B, S0] + ([A] if A else []) + owners[1:]: x.call('C_CloseSession', s=h)
                assert x.call('C_CloseSession', s=owners[0])['rv'] == 0; observers = [('new', L.login(label))]
            else:
                L.restart('reinit'); x = L.x; observers = [('new', L.login(label)), ('new-2', x.call('C_OpenSession', slot=L.slot_of(label))['h'])]; slot = L.slot_of(label)
            for oname, S in observers:
                assert S is not None; seen = tags_seen(S)
                for tg, path in made:
                    part.case(('session-object', path, event, oname, b))
                    if tg in seen: part.violation(f'{path.split("/")[0]}|session-object,{event}|outlives-its-session', f'a session object made by {path} is still returned by a search from a {oname} session after {event}', dict(path=path, event=event, observer=oname, backend=b))
                for tg, path in tok['extra']:
                    part.case(('token-object', event, oname, b))
                    if tg not in seen: part.violation(f'C_CreateObject|token-object,{event}|not-found-after-session-event', f'a token object is no longer found after {event}', dict(event=event, observer=oname, backend=b))
            x.call('C_CloseAllSessions', slot=slot)
    except Died as e: part.observe('side:C17 library terminated the host', {'kind': e.kind(), 'fn': e.fn, 'where': e.where(), 'job': 'sessobj'}); part.inconc(f'executor died ({e.kind()} in {e.fn}) in the session-object job')
    except Hang: part.inconc('executor hang in the session-object job')
    except AssertionError as e: part.inconc(f'session-object job could not continue: {e!r}')
    finally: L.stop()
    shutil.rmtree(d, ignore_errors=True); return part

def w_history(job):
    part = Part(); d = os.path.join(job['scratch'], 'h%d' % job['seed']); shutil.rmtree(d, ignore_errors=True); os.makedirs(d); L = Lib(job, d, job['backend'], job['cfg'])
    h = History(job, part, L, random.Random(job['seed']))
    try: h.run(job['steps']); part.count('histories')
    except Died as e: part.observe('side:C17 library terminated the host', {'kind': e.kind(), 'fn': e.fn, 'where': e.where(), 'seed': job['seed']}); part.inconc(f'executor died ({e.kind()} in {e.fn}) seed={job["seed"]}')
    except Hang: part.inconc(f'executor hang seed={job["seed"]}')
    except AssertionError as e: part.inconc(f'history set-up failed seed={job["seed"]}: {e!r}')
    finally:
        if L.x is not None:
            for cat, loc in L.x.ubsan_reports()[:10]: part.observe('side:ubsan ' + loc, cat)
        L.stop()
    if len(part.samples) < 1: part.samples.append({'seed': job['seed'], 'backend': job['backend'], 'history_head': [repr(t) for t in h.trace[:20]]})
    shutil.rmtree(d, ignore_errors=True); return part

# ---------------------------------------------------------------- (c) golden fixtures
def fixture_compare(part, L, exp, fx, phase, skip=()):
    ck = L.ck; seen = {}; V = lambda key, what, **w: part.violation(key, what, dict(w, fixture=fx, config=L.cfg, phase=phase))
    for slot, ti in L.tokens(): seen[ti['serial']] = (slot, ti)
    for t in exp['tokens']:
        name = bytes.fromhex(t['label']).rstrip(b' ').decode('latin-1')
        if t['serial'] not in seen: V(f'fixture|{fx}|token-not-recognised', 'a token of the golden fixture is not presented by the current build', token=name); continue
        slot, ti = seen[t['serial']]
        if phase == 'open' and (ti['label'] != t['label'] or ti['flags'] != t['flags']): V(f'fixture|{fx}|token-info-differs', 'label/flags of a fixture token differ from the recorded ones', token=name, want=(t['label'], t['flags']), got=(ti['label'], ti['flags']))
        h = L.x.call('C_OpenSession', slot=slot)['h']
        if phase == 'open':
            r = L.x.call('C_Login', s=h, user=0, pin=t['so_pin']); part.case(('fixture-pin', 'so', fx, L.cfg))
            if r['rv'] != 0: V(f'C_Login|fixture:{fx},so-pin|rejected', 'the recorded SO PIN of a fixture token no longer logs in', token=name, rv=r['rvname'])
            L.x.call('C_Logout', s=h)
            r = L.x.call('C_Login', s=h, user=1, pin=(bytes.fromhex(t['user_pin']) + b'\x00').hex())
            if r['rv'] == 0: part.observe('side:C04 a wrong PIN logs in to a fixture token', {'fixture': fx}); L.x.call('C_Logout', s=h)
        r = L.x.call('C_Login', s=h, user=1, pin=t['user_pin']); part.case(('fixture-pin', 'user', fx, L.cfg))
        if r['rv'] != 0: V(f'C_Login|fixture:{fx},user-pin|rejected', 'the recorded user PIN of a fixture token no longer logs in', token=name, rv=r['rvname']); continue
        rv, hs = L.x.findall(h); got = {}
        for o in hs:
            try: a = L.read(h, o)
            except ApiError as e: V(f'fixture|{fx}|object-unreadable', 'an object of the fixture cannot be read: %s' % e, token=name); continue
            got[a.get('CKA_LABEL', b'').hex()] = a
        for o in t['objects']:
            lab = o['CKA_LABEL']; cls = o.get('CKA_CLASS', '?')[:2]; part.case(('fixture', cls, bool(o.get('CKA_PRIVATE') == '01'), fx, L.cfg, phase))
            if lab in skip: continue
            if lab not in got: V(f'fixture|{fx},class={cls}|object-missing', 'an object of the golden fixture is not returned', token=name, label=bytes.fromhex(lab)); continue
            for a, e in o.items():
                if not persist.json_matches(e, got[lab].get(a), ck): V(f'fixture|{fx.split("/")[0]},{a}|value-differs', f'{a} of a fixture object differs from the value recorded from the pinned version', token=name, label=bytes.fromhex(lab), want=e if len(str(e)) < 100 else str(e)[:100], got=W(got[lab].get(a, '<absent>')))
                part.count('fixture_values')
            for a in got[lab]:
                if a not in o: V(f'fixture|{fx.split("/")[0]},{a}|attribute-appeared', f'a fixture object has an attribute that the pinned version did not return', label=bytes.fromhex(lab))
        extra = set(got) - {o['CKA_LABEL'] for o in t['objects']} - set(skip)
        if extra: V(f'fixture|{fx}|unexpected-object', 'objects that are not in the golden fixture are returned', labels=[bytes.fromhex(l) for l in sorted(extra)][:5])
        L.x.call('C_CloseSession', s=h)

def w_fixture(job):
    part = Part(); fx = job['fixture']; backend = fx.split('/')[0]; src = f'{VERIF}/fixtures/{fx}'; exp = json.load(open(f'{src}/expect.json'))
    d = os.path.join(job['scratch'], 'fx-%s-%s' % (fx.replace('/', '-'), job['cfg'])); shutil.rmtree(d, ignore_errors=True); os.makedirs(d); shutil.copytree(f'{src}/tokens', f'{d}/tokens')
    L = Lib(job, d, backend, job['cfg'])
    try:
        L.start(); fixture_compare(part, L, exp, fx, 'open')
        # the token must stay usable: change it with the current build, restart, compare again
        t = max(exp['tokens'], key=lambda t: len(t['objects'])); slot = [s for s, ti in L.tokens() if ti['serial'] == t['serial']]
        if slot:
            h = L.x.call('C_OpenSession', slot=slot[0])['h']; L.x.call('C_Login', s=h, user=1, pin=t['user_pin']); new = b'added by the current build'
            r1 = L.x.call('C_CreateObject', s=h, tmpl=L.x.T([('CKA_CLASS', L.ck.CKO_DATA), ('CKA_TOKEN', True), ('CKA_PRIVATE', True), ('CKA_LABEL', new), ('CKA_VALUE', b'v' * 100)]))
            rv, hs = L.x.findall(h, [('CKA_LABEL', b'sk-AES-32-priv')]); r2 = L.x.call('C_SetAttributeValue', s=h, o=hs[0], tmpl=L.x.T([('CKA_ID', b'changed by the current build')])) if hs else {'rv': -1}
            rv, hs2 = L.x.findall(h, [('CKA_LABEL', b'data-pub-0')]); r3 = L.x.call('C_DestroyObject', s=h, o=hs2[0]) if hs2 else {'rv': -1}
            if r1['rv'] or r2['rv'] or r3['rv']: part.violation(f'fixture|{fx}|not-modifiable', 'a fixture token cannot be modified by the current build', {'create': r1['rv'], 'set': r2['rv'], 'destroy': r3['rv'], 'config': job['cfg']})
            L.restart('newproc'); skip = {new.hex(), b'data-pub-0'.hex()}
            exp2 = json.loads(json.dumps(exp))
            for tt in exp2['tokens']:
                for o in tt['objects']:
                    if o['CKA_LABEL'] == b'sk-AES-32-priv'.hex(): o['CKA_ID'] = b'changed by the current build'.hex()
            fixture_compare(part, L, exp2, fx, 'after-modification', skip=skip)
    except Died as e: part.observe('side:C17 library terminated the host', {'kind': e.kind(), 'fn': e.fn, 'where': e.where(), 'fixture': fx}); part.inconc(f'executor died ({e.kind()} in {e.fn}) on fixture {fx}')
    except Hang: part.inconc(f'executor hang on fixture {fx}')
    finally: L.stop()
    if job.get('decode'):
        # the decoders against the ORIGINAL fixture (keeps the decoders honest about the pinned format)
        for dt in persist.read_disk(f'{src}/tokens', backend, job['scratch']):
            for p in dt.problems: part.violation(f'decoder|fixture:{fx}|format-problem', 'the independent decoder objects to a golden fixture: ' + p, None)
            t = [t for t in exp['tokens'] if dt.info and bytes.fromhex(t['serial']) == dt.info.serial]
            if not t: part.violation(f'decoder|fixture:{fx}|token-not-decodable', 'a fixture token is not decodable', None); continue
            t = t[0]; mk = dt.master_key(bytes.fromhex(t['user_pin'])); mk2 = dt.master_key(bytes.fromhex(t['so_pin']), so=True)
            if not mk or mk != mk2: part.violation(f'decoder|fixture:{fx}|master-key-not-recovered', 'the recorded PINs do not unwrap one master key from the fixture', None); continue
            disk = {}
            for o in dt.objects: v, probs = o.api_view(mk, L.ck); disk[(v.get('CKA_LABEL') or b'').hex()] = v
            for o in t['objects']:
                part.case(('fixture-decoder', o.get('CKA_CLASS', '?')[:2], fx)); v = disk.get(o['CKA_LABEL'], {})
                for a, e in o.items():
                    if 'unavailable' in e or (backend == 'db' and a in persist.DB_UNREADABLE): continue
                    if not persist.json_matches(e, v.get(a), L.ck): part.violation(f'decoder|fixture:{fx},{a}|disk-differs-from-recorded', 'decoder and expect.json disagree on a golden fixture', {'label': o['CKA_LABEL'], 'attr': a})
    shutil.rmtree(d, ignore_errors=True); return part

# ---------------------------------------------------------------- (d) FS faults
FLABEL = b'c05-faults'
def fault_base(L):
    """token with the victims of the four scenarios"""
    ck = L.ck; L.start(); L.init_token(FLABEL); S = L.login(FLABEL); T = L.x.T
    mk = lambda t: L.x.call('C_CreateObject', s=S, tmpl=T(t))
    aes = lambda lab, priv: [('CKA_CLASS', ck.CKO_SECRET_KEY), ('CKA_KEY_TYPE', ck.CKK_AES), ('CKA_TOKEN', True), ('CKA_PRIVATE', priv), ('CKA_LABEL', lab), ('CKA_ID', b'old-id'), ('CKA_VALUE', bytes(range(32))), ('CKA_SENSITIVE', False), ('CKA_EXTRACTABLE', True),
                              ('CKA_ALLOWED_MECHANISMS', [ck.CKM_AES_CBC, ck.CKM_AES_GCM]), ('CKA_WRAP_TEMPLATE', [('CKA_EXTRACTABLE', True), ('CKA_LABEL', b'nested')])]
    for t in (aes(b'victim-set', True), aes(b'victim-destroy', False), aes(b'victim-copy', False), [('CKA_CLASS', ck.CKO_DATA), ('CKA_TOKEN', True), ('CKA_PRIVATE', False), ('CKA_LABEL', b'bystander'), ('CKA_VALUE', b'b' * 300)]):
        r = mk(t); assert r['rv'] == 0, r
    L.stop()
def scenario(L, S, call):
    """-> (request kwargs, effect description) of the faulted call"""
    ck = L.ck; T = L.x.T; find = lambda lab: L.x.findall(S, [('CKA_LABEL', lab)])[1][0]
    if call == 'C_CreateObject':
        t = [('CKA_CLASS', ck.CKO_SECRET_KEY), ('CKA_KEY_TYPE', ck.CKK_GENERIC_SECRET), ('CKA_TOKEN', True), ('CKA_PRIVATE', True), ('CKA_LABEL', b'created'), ('CKA_ID', b'\x01\x02'), ('CKA_VALUE', bytes(range(200))), ('CKA_SENSITIVE', False), ('CKA_EXTRACTABLE', True),
             ('CKA_ALLOWED_MECHANISMS', [ck.CKM_SHA256_HMAC]), ('CKA_UNWRAP_TEMPLATE', [('CKA_SENSITIVE', True)]), ('CKA_START_DATE', b'20200101')]
        return dict(s=S, tmpl=T(t)), ('present', b'created', persist.template_api_form(ck, t))
    if call == 'C_SetAttributeValue':
        t = [('CKA_ID', b'new-id-written-under-fault'), ('CKA_LABEL', b'victim-set'), ('CKA_DECRYPT', False)]
        return dict(s=S, o=find(b'victim-set'), tmpl=T(t)), ('present', b'victim-set', persist.template_api_form(ck, t))
    if call == 'C_DestroyObject': return dict(s=S, o=find(b'victim-destroy')), ('absent', b'victim-destroy', None)
    if call == 'C_CopyObject':
        t = [('CKA_LABEL', b'the-copy'), ('CKA_PRIVATE', True)]
        return dict(s=S, o=find(b'victim-copy'), tmpl=T(t)), ('copy', b'the-copy', persist.template_api_form(ck, t))
    raise ValueError(call)
def state_after(L):
    """fault-free new process: {label: attrs or None (unreadable)} or None when the token is unusable"""
    L.start(); S = L.login(FLABEL)
    if S is None: L.stop(); return None
    rv, hs = L.x.findall(S); out = {}
    for h in hs:
        try: a = L.read(S, h); out[a.get('CKA_LABEL')] = a
        except ApiError: out[('unreadable', h)] = None
    L.stop(); return out
def fault_run(job, base, call, k, errno, mode='fail'):
    d = os.path.join(job['scratch'], 'fr-%s-%s-%d-%d-%d' % (job['backend'], call, k, errno, os.getpid())); shutil.rmtree(d, ignore_errors=True); shutil.copytree(base, d, symlinks=True)
    for f in os.listdir(d):
        if f != 'tokens': os.remove(os.path.join(d, f))          # the configuration file must point at the copy
    L = Lib(job, d, job['backend'], job['cfg'])
    try:
        L.start(); S = L.login(FLABEL); assert S is not None; kw, effect = scenario(L, S, call)
        r0 = L.x.raw(dict(fn='fs', mode=mode, root=d + '/tokens', k=k, errno=errno)); r = L.x.call(call, **kw); f = L.x.raw(dict(fn='fs', mode='trace')); L.x.raw(dict(fn='fs', mode='off'))
        L.stop(); after = state_after(L)
        return dict(rv=r['rvname'], nops=f['nops'], injected=f['injected'], trace=f['trace'], after=after, effect=effect)
    finally:
        L.stop(); shutil.rmtree(d, ignore_errors=True)
def effect_present(res, ref):
    """-> None when the effect of the call is fully there after the restart, else an outcome class"""
    kind, label, promised = res['effect']; after = res['after']
    if after is None: return 'ok-but-token-unusable'
    if any(v is None for v in after.values()) and kind != 'absent': return 'ok-but-object-damaged'
    if kind == 'absent': return None if label not in after else 'ok-but-not-persisted'
    o = after.get(label)
    if o is None: return 'ok-but-not-persisted'
    want = dict(ref['after'][label]) if ref and ref['after'] and ref['after'].get(label) else {}
    want.update(promised)
    d = [a for a in want if o.get(a, '<absent>') != want[a]]
    if not d: return None
    return 'ok-but-not-persisted' if all(a in promised for a in d) and kind == 'present' and label == b'victim-set' else 'ok-but-object-damaged'

def w_fault_prep(job):
    """build the base directory, dry-run each call with `fs count`; results go to a JSON file for the parent"""
    part = Part(); base = os.path.join(job['scratch'], 'fault-base-' + job['backend']); shutil.rmtree(base, ignore_errors=True); os.makedirs(base); L = Lib(job, base, job['backend'], job['cfg'])
    try:
        fault_base(L); out = {}
        for call in job['calls']:
            res = fault_run(job, base, call, 0, 0, mode='count')
            if res['rv'] != 'CKR_OK' or effect_present(res, None) is not None: part.inconc(f'fault-free reference run of {call} does not show its effect: {res["rv"]} {effect_present(res, None)}'); continue
            out[call] = {'nops': res['nops'], 'kinds': [t[1] for t in res['trace']], 'after': None}; part.count('fs_ops_' + call + '_' + job['backend'], res['nops'])
        json.dump(out, open(os.path.join(job['scratch'], 'fault-prep-%s.json' % job['backend']), 'w'))
    except (Died, Hang, AssertionError) as e: part.inconc('fault preparation failed: %r' % (e,))
    return part

def w_fault(job):
    part = Part(); base = os.path.join(job['scratch'], 'fault-base-' + job['backend']); call = job['call']
    try: ref = fault_run(job, base, call, 0, 0, mode='count'); assert ref['rv'] == 'CKR_OK' and ref['after']
    except (Died, Hang, AssertionError) as e: part.inconc('reference run failed: %r' % (e,)); return part
    for k in job['ks']:
        for errno, ename in ((5, 'EIO'), (28, 'ENOSPC')):
            try: res = fault_run(job, base, call, k, errno)
            except Died as e: part.observe('side:C17 library terminated the host under an FS fault', {'kind': e.kind(), 'fn': e.fn, 'where': e.where(), 'call': call, 'k': k}); part.inconc(f'executor died ({e.kind()} in {e.fn}) under fault k={k}'); continue
            except Hang: part.inconc(f'executor hang under fault {call} k={k}'); continue
            except AssertionError as e: part.inconc(f'fault run set-up failed {call} k={k}: {e!r}'); continue
            if res['injected'] != 1: part.observe('fault point not reached (run shorter than the dry run)', {'call': call, 'k': k}); continue
            kind = [t[1] for t in res['trace'] if t[0] == k][0]; path = [t[2] for t in res['trace'] if t[0] == k][0]
            role = 'token.object' if path.endswith('token.object') else 'generation' if path.endswith('generation') else 'lock' if path.endswith('.lock') else 'object' if path.endswith('.object') else 'db-journal' if 'journal' in path else 'db' if path.endswith('.db') else 'dir'
            pre = ('db,' if job['backend'] == 'db' else '') + 'fail:' + kind
            ok = res['rv'] == 'CKR_OK'; outcome = effect_present(res, ref) if ok else None
            part.case((call, kind, role, ename, job['backend'], 'ok' if ok else 'failed'), nontrivial=True); part.count('faults_injected'); part.count('faulted_calls_ok' if ok else 'faulted_calls_failed')
            if ok and outcome is not None:
                part.violation(f'{call}|{pre}|{outcome}', f'{call} returned CKR_OK although a failing {kind} kept its effect from reaching the disk',
                               {'call': call, 'k': k, 'errno': ename, 'fs_op': kind, 'file': role, 'backend': job['backend'], 'trace': res['trace'][:k + 2][-6:], 'objects_after': sorted(repr(l) for l in (res['after'] or {}))})
            elif not ok:
                # C05 demands nothing of a failing call; what it left behind is C09's business (recorded for the reader)
                a = res['after']; kind_e, label, promised = res['effect']
                left = 'token-unusable' if a is None else 'object-damaged' if any(v is None for v in a.values()) else 'effect-present' if ((label not in a) if kind_e == 'absent' else (label in a and kind_e != 'present')) else 'clean'
                if left != 'clean': part.observe(f'side:C09 failed {call} under {kind} fault left: {left}', {'k': k, 'errno': ename, 'rv': res['rv'], 'file': role, 'backend': job['backend']}, cap=4)
    return part

# ---------------------------------------------------------------- driver
def dispatch(job): return {'sessobj': w_sessobj, 'flags': w_flags, 'history': w_history, 'fixture': w_fixture, 'fault-prep': w_fault_prep, 'fault': w_fault}[job['kind']](job)
def run(ctx):
    ctx.rule = ('one evaluation = one (token object, restart) comparison of EVERY attribute against the model, one (object, decoder) comparison, one session object checked for non-survival, '
                'one golden-fixture object / PIN, or one faulted call; distinct = (class, attribute kind, size class, back-end, restart kind) of attributes that were set explicitly '
                '(non-default), plus (fixture, class, privacy, config), plus (call, FS-operation kind, file role, errno, back-end, outcome)')
    ctx.level = 'exploration'
    cfgs = ['asan'] + ([] if ctx.quick else ['botan']); ctx.need(*cfgs); hdr = ctx.paths['asan']['hdr']
    common = dict(paths=ctx.paths, hdr=hdr, scratch=ctx.scratch)
    jobs = []
    nh = ctx.q(64, 1500); steps = ctx.q(45, 60)
    for i in range(nh):
        backend = ('file', 'db')[i % 4 == 3] if ctx.quick else ('file', 'db')[i % 2]
        jobs.append(dict(common, kind='history', seed=ctx.seed * 100003 + i, steps=steps, backend=backend, cfg='asan' if (ctx.quick or i % 5) else 'botan'))
    first = True
    for cfg in cfgs:
        for fx in ('file/openssl', 'file/botan', 'db/openssl', 'db/botan'):
            jobs.append(dict(common, kind='fixture', fixture=fx, cfg=cfg, decode=(cfg == 'asan')))
    for cfg in cfgs:
        for b in ('file', 'db'): jobs.append(dict(common, kind='flags', backend=b, cfg=cfg, seed=ctx.seed * 100003 + 900000 + len(jobs)))
    for cfg in cfgs:
        for b in ('file', 'db'):
            for rep in range(ctx.q(2, 6)): jobs.append(dict(common, kind='sessobj', backend=b, cfg=cfg, seed=ctx.seed * 100003 + 800000 + len(jobs)))
    fb = ('file', 'db'); calls = ['C_CreateObject', 'C_SetAttributeValue', 'C_DestroyObject', 'C_CopyObject']
    # db back-end: C_CopyObject is broken wholesale there (see the histories), so it has no effect a fault could lose
    for b in fb: jobs.append(dict(common, kind='fault-prep', backend=b, cfg='asan', calls=[c for c in calls if not (b == 'db' and c == 'C_CopyObject')]))
    # long jobs first
    jobs.sort(key=lambda j: {'fault-prep': 0, 'fixture': 1, 'flags': 1, 'sessobj': 1, 'history': 2}[j['kind']])
    for part in pmap(dispatch, jobs, ctx.nproc): ctx.merge(part)
    jobs = []
    for b in fb:
        try: prep = json.load(open(os.path.join(ctx.scratch, 'fault-prep-%s.json' % b)))
        except FileNotFoundError: ctx.inconc('no fault preparation for back-end ' + b); continue
        for call, p in prep.items():
            ks = list(range(1, p['nops'] + 1))
            if ctx.quick and len(ks) > 300: ks = [k for k in ks if k % 4 == ctx.seed % 4 or k > p['nops'] - 45 or k <= 45]      # the ~700 operations of a db create: a quarter + both ends
            chunk = max(1, len(ks) // 12 + 1)
            for i in range(0, len(ks), chunk): jobs.append(dict(common, kind='fault', backend=b, cfg='asan', call=call, ks=ks[i:i + chunk]))
    for part in pmap(dispatch, jobs, ctx.nproc): ctx.merge(part)
    ctx.assumptions += ['durability is against process restart, not power loss (the library never calls fsync; a sandbox cannot cut power)',
                        'objects are matched across restarts by a unique tag at the start of CKA_LABEL', 'asymmetric key components are random byte strings (storage only, no crypto on them)',
                        'FS faults are injected one at a time (the k-th FS operation of the call fails once); a failed flush discards the stream buffer as a full disk would',
                        'quick runs the golden fixtures under the asan (OpenSSL) build; thorough adds the Botan build and Botan histories']
if __name__ == '__main__': main('C05', run, level='exploration', min_evaluations=1500, min_distinct=150)
