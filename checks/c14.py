#!/usr/bin/env python3
"""C14 - token initialisation, re-initialisation and isolation between tokens."""
import sys, os, subprocess; sys.path.insert(0, os.path.join(os.path.dirname(os.path.abspath(__file__)), '..', 'vlib'))
from harness import main, SAN_ENV
from p11client import mkconf, Died, Hang
from walkcheck import run_walks
from model import Tok

OPS = {'open': 6, 'close': 2, 'closeall': 1, 'login': 6, 'logout': 3, 'create': 8, 'copy': 2, 'destroy': 2, 'setattr': 3, 'find': 3, 'getattr': 3, 'initpin': 1, 'setpin': 2,
       'inittoken': 3, 'newtoken': 1, 'restart': 2, 'restart_proc': 1, 'util_init': 1, 'util_delete': 1, 'audit': 2}
MAX_TOKENS = 4

def token_of_last(w):
    """which token did the last history entry act on (None = all / unknown)"""
    if not w.history: return None
    h = w.history[-1]; k = h[0]
    if k in ('open', 'closeall', 'inittoken'): return h[1]
    if k in ('restart',): return None
    se = w.m.sess.get(h[1]) if len(h) > 1 else None
    return se.ti if se is not None else None

def hook(w, job, part):
    rnd = w.rnd; ck = w.ck; util = job['paths'][job['cfg']]['util']; lib = job['paths'][job['cfg']]['lib']; conf = os.path.join(w.d, 'softhsm2.conf')
    def run_util(*args):
        env = dict(os.environ, SOFTHSM2_CONF=conf, **SAN_ENV)
        r = subprocess.run([util, '--module', lib] + list(args), env=env, stdout=subprocess.PIPE, stderr=subprocess.STDOUT, text=True, timeout=120)
        return r.returncode, r.stdout
    def retag(n0, op):
        for f in w.findings[n0:]:
            if f.prop in ('C19', 'C11', 'C03', 'C05', 'C01', 'C04', 'CTRL'): f.key = f'isolation|after={op}|{f.prop}:{f.key}'; f.what = 'an untouched token changed: ' + f.what; f.prop = 'C14'
    def probe_others(touched, op):
        """cheap isolation monitor after every call: every OTHER token's sessions/login (mon_state covers all tokens),
        its visible object set (empty-template search) and one attribute read"""
        n0 = len(w.findings)
        for t in w.m.toks:
            if t.idx == touched: continue
            se = w.pick_sess(ti=t.idx)
            if se is None: continue
            w.op_find(se, templ=[]);
            if rnd.random() < 0.5: w.op_getattr(se)
            w.cov('C14', ('isolation-probe', op, t.login))
        retag(n0, op)
    def audit(ti):
        """quiescent full audit of one token: both PINs log in, object set and tracked attributes equal the model"""
        t = w.m.toks[ti]; n0 = len(w.findings)
        w.op_closeall(ti); w.op_open(ti, True); se = w.pick_sess(ti=ti)
        if se is None: return
        w.op_login(se, 0, True)
        if t.login != 'S': w.F('C14', 'audit|so-pin-refused', 'the SO PIN of the history no longer logs in', ti=ti)
        else: w.op_logout(se)
        if t.usr is not None:
            w.op_login(se, 1, True)
            if t.login != 'U': w.F('C14', 'audit|user-pin-refused', 'the user PIN of the history no longer logs in', ti=ti)
        w.op_find(se, templ=[])
        for o in [o for o in w.m.objs.values() if o.alive and o.ti == ti and (not o.private or t.login == 'U')]:
            hs = [h for h, al in o.handles.items() if al]
            if not hs: continue
            names = [n for n in o.attrs if n != 'CKA_VALUE' or o.cls == 'CKO_DATA']
            rvn, vals = w.x.getattrs(se.h, hs[0], names)
            from walker import decode_attr
            for nme in names:
                got = decode_attr(nme, vals.get(nme))
                if got != o.attrs[nme]: w.F('C14', f'audit|attribute-differs|{nme}', 'an object attribute differs from the history', uid=o.uid, got=got, want=o.attrs[nme])
        for f in w.findings[n0:]:
            if f.prop in ('C19', 'C11', 'C03', 'C05', 'CTRL', 'C04'): f.key = f'audit|{f.prop}:{f.key}'; f.prop = 'C14'
        w.cov('C14', ('audit', t.usr is not None, len([o for o in w.m.objs.values() if o.alive and o.ti == ti]) > 0))
    def newtoken():
        if len(w.m.toks) >= MAX_TOKENS: return
        slots = w.c('C_GetSlotList', count=32)['slots']; free = None
        for sl in slots:
            ti = w.c('C_GetTokenInfo', slot=sl)
            if ti['rv'] == 0 and not (ti['flags'] & ck.CKF_TOKEN_INITIALIZED): free = sl
        if free is None: w.F('C14', 'C_InitToken|no-free-slot', 'no uninitialised slot is available'); return
        i = len(w.m.toks); so = b'so-pin-N%d' % rnd.randrange(1000); label = b'tokN%d-%d' % (i, rnd.randrange(1000)); w.H('newtoken', free, label)
        r = w.c('C_InitToken', slot=free, pin=so.hex(), label=label.hex())
        if r['rv'] != 0: w.F('C14', 'C_InitToken|free-slot|refused', 'initialising the free slot failed', got=r['rvname']); return
        ti = w.c('C_GetTokenInfo', slot=free); got_label = bytes.fromhex(ti['label']).rstrip(b' ')
        if got_label != label or not (ti['flags'] & ck.CKF_TOKEN_INITIALIZED): w.F('C14', 'C_InitToken|free-slot|label-or-flag', 'the new token does not carry the given label', got=got_label)
        w.m.toks.append(Tok(i, free, label, so, None, bytes.fromhex(ti['serial'])))
        w.c('C_GetSlotList', null=True); slots2 = w.c('C_GetSlotList', count=32)['slots']
        nfree = sum(1 for sl in slots2 if not (w.c('C_GetTokenInfo', slot=sl)['flags'] & ck.CKF_TOKEN_INITIALIZED))
        if nfree != 1: w.F('C14', 'C_InitToken|free-slot|no-new-free-slot', 'after initialising the free slot no new free slot became available', nfree=nfree, slots=slots2)
        w.cov('C14', ('newtoken', i))
    def util_restart(action):
        """C_Finalize; softhsm2-util acts on the directory; C_Initialize"""
        ti = rnd.randrange(len(w.m.toks)); t = w.m.toks[ti]
        def cli_safe(b): return b is None or (all(33 <= c < 127 for c in b) and len(b) > 0)
        if not (cli_safe(t.so) and cli_safe(t.label)): return          # the command line cannot carry NUL or non-ASCII PIN bytes faithfully
        w.H('restart', 'util-' + action); w.c('C_Finalize')
        if action == 'init':      # re-initialise an existing token by label (right or wrong SO PIN)
            right = rnd.random() < 0.7; pin = t.so if right else t.so + b'x'; label = b'utok%d-%d' % (ti, rnd.randrange(1000)); upin = b'util-user-%d' % rnd.randrange(1000)
            rc, out = run_util('--init-token', '--token', t.label.decode(), '--label', label.decode(), '--so-pin', pin.decode('latin-1'), '--pin', upin.decode())
            if right and rc == 0: w.m.on_inittoken(ti, label); t.usr = upin
            elif right: w.F('C14', 'softhsm2-util|init-token|right-pin|failed', 'softhsm2-util could not re-initialise a token with the right SO PIN', out=out[-300:])
            elif rc == 0 and 'ERROR' not in out: w.F('C14', 'softhsm2-util|init-token|wrong-pin|accepted', 're-initialisation with a wrong SO PIN succeeded', out=out[-300:])
            w.cov('C14', ('util-init', right))
        else:                     # delete the token, then create a fresh one in its place (keeps the model's token list dense)
            rc, out = run_util('--delete-token', '--token', t.label.decode())
            if rc != 0: w.F('C14', 'softhsm2-util|delete-token|failed', 'softhsm2-util could not delete a token', out=out[-300:])
            else:
                for o in w.m.objs.values():
                    if o.ti == ti: o.alive = False
                so = b'so-pin-U%d' % rnd.randrange(1000); upin = b'util-user-%d' % rnd.randrange(1000); label = b'dtok%d-%d' % (ti, rnd.randrange(1000))
                rc, out = run_util('--init-token', '--free', '--label', label.decode(), '--so-pin', so.decode(), '--pin', upin.decode())
                if rc != 0: w.F('C14', 'softhsm2-util|init-token|free|failed', 'softhsm2-util could not initialise the free token', out=out[-300:])
                t.so = so; t.usr = upin; t.label = label; t.serial = None
            w.cov('C14', ('util-delete',))
        r = w.c('C_Initialize', locking='os')
        if r['rv'] != 0: w.F('C14', 'C_Initialize|after-util|failed', 'the library could not be initialised after softhsm2-util acted on the directory', got=r['rvname']); return
        w.m.on_restart()
        if t.serial is None:      # learn the new token's serial by its label
            for sl in w.c('C_GetSlotList', count=32)['slots']:
                ti2 = w.c('C_GetTokenInfo', slot=sl)
                if ti2['rv'] == 0 and bytes.fromhex(ti2['label']).rstrip(b' ') == t.label: t.serial = bytes.fromhex(ti2['serial'])
            if t.serial is None: w.F('C14', 'softhsm2-util|init-token|token-not-found', 'the token created by softhsm2-util is not found by the library'); t.serial = b'0' * 16
        w.remap_slots()
    def add_junk():
        """things an administrator or an interrupted run leaves in the token directory: they are not tokens and must not stop the library from finding the tokens (every name sorts / hashes differently,
        so that whatever order readdir() uses some of them come before the tokens)"""
        import uuid
        td = os.path.join(w.d, 'tokens'); n = len([e for e in os.listdir(td) if e.startswith(('lost+found', 'backup-', 'junk-', '.'))])
        if n: return
        os.makedirs(os.path.join(td, 'lost+found'), exist_ok=True); os.makedirs(os.path.join(td, '.snapshot'), exist_ok=True)
        for i in range(10):
            dn = os.path.join(td, str(uuid.UUID(int=rnd.getrandbits(128))) if i % 2 else 'backup-%d-%d' % (i, rnd.randrange(10 ** 6))); os.makedirs(dn, exist_ok=True)          # an empty directory named like a token / a backup folder
            if i % 4 == 0: open(os.path.join(dn, 'notes.txt'), 'w').write('not a token\n')
        open(os.path.join(td, 'junk-README'), 'w').write('plain file\n'); w.cov('C14', ('stray-entries-in-token-directory',))
    names = [n for n, k in OPS.items() for _ in range(k) if not (n == 'copy' and job['backend'] == 'db')]
    for i in range(job['steps']):
        op = rnd.choice(names); w.stats['steps'] += 1
        if op == 'open' and len(w.m.live_sessions()) >= 6: op = 'close'
        if op == 'newtoken': newtoken(); touched = len(w.m.toks) - 1
        elif op in ('restart', 'restart_proc'):
            if rnd.random() < 0.4: add_junk()
            w.op_restart(op == 'restart_proc'); touched = None
        elif op == 'util_init': util_restart('init'); touched = None
        elif op == 'util_delete': util_restart('delete'); touched = None
        elif op == 'audit': ti = rnd.randrange(len(w.m.toks)); audit(ti); touched = ti
        elif op == 'inittoken':
            before = [(tt.label, tt.usr) for tt in w.m.toks]; w.op_inittoken(); touched = token_of_last(w)
            for tt, (l0, u0) in zip(w.m.toks, before):
                if tt.label == l0: continue
                # the re-initialisation succeeded: in THIS library instance the token must carry the new label, have no user PIN, and the old user PIN must not log in
                ti = w.c('C_GetTokenInfo', slot=tt.slot); got = bytes.fromhex(ti.get('label', '')).rstrip(b' ')
                if ti['rv'] != 0 or got != tt.label: w.F('C14', 'C_InitToken|re-init|label-not-applied', 'after re-initialisation C_GetTokenInfo does not show the new label', got=got, want=tt.label)
                if ti['rv'] == 0 and (ti['flags'] & ck.CKF_USER_PIN_INITIALIZED): w.F('C14', 'C_InitToken|re-init|user-pin-flag-still-set', 'CKF_USER_PIN_INITIALIZED survives a re-initialisation')
                # "removes its user PIN": nothing of the removed PIN's state survives either -- the count-low / final-try / locked / to-be-changed bits of the USER PIN are those of a token that never had one
                UBITS = ck.CKF_USER_PIN_COUNT_LOW | ck.CKF_USER_PIN_FINAL_TRY | ck.CKF_USER_PIN_LOCKED
                if ti['rv'] == 0 and (ti['flags'] & UBITS): w.F('C14', 'C_InitToken|re-init|user-pin-state-flags-survive', 'after a re-initialisation (the user PIN is gone) C_GetTokenInfo still reports state bits of the removed user PIN', flags=hex(ti['flags'] & UBITS))
                w.cov('C14', ('reinit-user-pin-state-flags', bool(getattr(tt, 'wrong_user_login_seen', False))))
                if u0 is not None:
                    r = w.c('C_OpenSession', slot=tt.slot)
                    if r['rv'] == 0:
                        w.m.new_handle(r['h'], 'probe-session'); rl = w.c('C_Login', s=r['h'], user=1, pin=u0.hex())
                        if rl['rv'] == 0: w.F('C14', 'C_InitToken|re-init|old-user-pin-still-logs-in', 'the user PIN that the re-initialisation removed still authenticates in the same library instance', got=rl['rvname'])
                        w.c('C_CloseSession', s=r['h'])
                    w.cov('C14', ('reinit-old-user-pin-probe',))
        else: getattr(w, 'op_' + op)(); touched = token_of_last(w)
        n0 = len(w.findings); w.mon_state(dead_sample=2); w.mon_handles(dead_sample=4)
        # a state/handle disagreement on a token the call did not touch is an isolation failure
        for f in w.findings[n0:]:
            pass
        if touched is not None or op in ('restart', 'restart_proc', 'util_init', 'util_delete'): probe_others(touched, op)
        if any(f.prop in ('C14', 'MODEL') for f in w.findings): break
    if not any(f.prop in ('C14', 'MODEL') for f in w.findings):
        for ti in range(len(w.m.toks)): audit(ti)

# ---- directed non-interference: the same script on token A must give the same answers whatever token B's sessions and login state are
SO_A, US_A, SO_B, US_B = b'so-pin-A14', b'user-pin-A14', b'so-pin-B14', b'user-pin-B14'
B_CONTEXTS = ('no-session', 'ro-public-session', 'rw-user-logged-in', 'rw-so-logged-in', 'two-sessions-user')
def noninterference(ctx, backend):
    ck = ctx.ck
    def setup(name):
        d = ctx.dir(f'c14-ni-{backend}-{name}'); x = ctx.new_exec('asan', d, backend); assert x.call('C_Initialize', locking='os')['rv'] == 0
        slots = []
        for so, us, lab in ((SO_A, US_A, b'tokA'), (SO_B, US_B, b'tokB')):
            x.call('C_GetSlotList', null=True); free = x.call('C_GetSlotList', count=16)['slots'][-1]; assert x.call('C_InitToken', slot=free, pin=so.hex(), label=lab.hex())['rv'] == 0, 'InitToken'
            s = x.call('C_OpenSession', slot=free)['h']; assert x.call('C_Login', s=s, user=0, pin=so.hex())['rv'] == 0 and x.call('C_InitPIN', s=s, pin=us.hex())['rv'] == 0
            assert x.call('C_Logout', s=s)['rv'] == 0 and x.call('C_Login', s=s, user=1, pin=us.hex())['rv'] == 0
            assert x.call('C_CreateObject', s=s, tmpl=x.T({'CKA_CLASS': ck.CKO_DATA, 'CKA_TOKEN': True, 'CKA_PRIVATE': True, 'CKA_LABEL': lab + b'-private', 'CKA_VALUE': b'v' * 8}))['rv'] == 0
            assert x.call('C_CloseSession', s=s)['rv'] == 0; slots.append(free)
        return x, slots[0], slots[1]
    def context(x, b, name):
        if name == 'no-session': return
        if name == 'ro-public-session': assert x.call('C_OpenSession', slot=b, flags=ck.CKF_SERIAL_SESSION)['rv'] == 0; return
        s = x.call('C_OpenSession', slot=b)['h']
        if name == 'two-sessions-user': assert x.call('C_OpenSession', slot=b, flags=ck.CKF_SERIAL_SESSION)['rv'] == 0
        assert x.call('C_Login', s=s, user=0 if name == 'rw-so-logged-in' else 1, pin=(SO_B if name == 'rw-so-logged-in' else US_B).hex())['rv'] == 0
    def state(x, s):
        r = x.call('C_GetSessionInfo', s=s); return (r['rvname'], r.get('state'))
    def script(x, a):
        """what token A answers; every entry must be the same in every B context"""
        out = []; O = lambda **kw: x.call('C_OpenSession', slot=a, **kw)
        s1 = O()['h']; out.append(('login user', x.call('C_Login', s=s1, user=1, pin=US_A.hex())['rvname'])); out.append(('close last session', x.call('C_CloseSession', s=s1)['rvname']))
        s2 = O()['h']; out.append(('state after closing the last session and reopening', state(x, s2))); out.append(('private objects visible then', len(x.findall(s2, {})[1])))
        out.append(('login so', x.call('C_Login', s=s2, user=0, pin=SO_A.hex())['rvname'])); out.append(('open RO while SO logged in', O(flags=ck.CKF_SERIAL_SESSION)['rvname']))
        out.append(('close all', x.call('C_CloseAllSessions', slot=a)['rvname'])); s3 = O()['h']; out.append(('state after C_CloseAllSessions and reopening', state(x, s3)))
        ro = O(flags=ck.CKF_SERIAL_SESSION)['h']; out.append(('SO login with an RO session on A', x.call('C_Login', s=s3, user=0, pin=SO_A.hex())['rvname'])); x.call('C_CloseSession', s=ro)
        out.append(('SO login without RO session on A', x.call('C_Login', s=s3, user=0, pin=SO_A.hex())['rvname'])); out.append(('logout', x.call('C_Logout', s=s3)['rvname']))
        out.append(('wrong user pin', x.call('C_Login', s=s3, user=1, pin=b'wrong-pin'.hex())['rvname'])); out.append(('state after wrong pin', state(x, s3)))
        out.append(('InitToken with a session open on A', x.call('C_InitToken', slot=a, pin=SO_A.hex(), label=b'tokA2'.hex())['rvname'])); x.call('C_CloseAllSessions', slot=a)
        out.append(('InitToken wrong SO pin', x.call('C_InitToken', slot=a, pin=b'not-the-so-pin'.hex(), label=b'tokA2'.hex())['rvname']))
        out.append(('InitToken without sessions on A', x.call('C_InitToken', slot=a, pin=SO_A.hex(), label=b'tokA2'.hex())['rvname']))
        s4 = O()['h']; out.append(('old user pin after re-init', x.call('C_Login', s=s4, user=1, pin=US_A.hex())['rvname'])); out.append(('objects after re-init (as SO)', (x.call('C_Login', s=s4, user=0, pin=SO_A.hex())['rvname'], len(x.findall(s4, {})[1]))))
        x.call('C_CloseAllSessions', slot=a); return out
    base = None
    for name in B_CONTEXTS:
        x = None
        try:
            x, a, b = setup(name); context(x, b, name); sb = [h for h in range(1, 40) if x.call('C_GetSessionInfo', s=h).get('slot') == b]; before = [state(x, h) for h in sb]
            got = script(x, a); after = [state(x, h) for h in sb]
            if before != after: ctx.violation(f'isolation|directed|B={name}|sessions-or-login-of-B-changed', 'a script run on token A changed the sessions or the login state of token B', {'backend': backend, 'before': before, 'after': after})
            if base is None: base = got
            else:
                for (what, v0), (_, v1) in zip(base, got):
                    if v0 != v1: ctx.violation(f'isolation|directed|B={name}|A:{what}|differs-from-B=no-session', 'token A answers differently depending on the sessions / login state of token B', {'backend': backend, 'step': what, 'with_B_idle': v0, 'with_B_' + name: v1}); break
            ctx.case(('non-interference', backend, name), sample={'non_interference_script_on_A': [list(e) for e in got[:6]], 'B': name, 'backend': backend} if name == 'rw-user-logged-in' else None)
            x.call('C_Finalize'); x.close(); x = None
        except AssertionError as e: ctx.inconc(f'non-interference scenario setup failed ({backend}, {name}): {e!r}')
        finally:
            if x is not None: x.kill()

def reinit_two_process(ctx, backend):
    """process A keeps the library initialised (no session open) while process B re-initialises the token and stores a new object: what A sees afterwards must be the
    re-initialised token - the new label, no user PIN, exactly the new object with the new value - never anything of the objects the re-initialisation removed"""
    ck = ctx.ck; A = B = None
    try:
        d = ctx.dir(f'c14-2p-{backend}'); A = ctx.new_exec('asan', d, backend); assert A.call('C_Initialize', locking='os')['rv'] == 0
        slot = A.call('C_GetSlotList', count=16)['slots'][-1]; assert A.call('C_InitToken', slot=slot, pin=SO_A.hex(), label=b'before-reinit'.hex())['rv'] == 0
        s = A.call('C_OpenSession', slot=slot)['h']; assert A.call('C_Login', s=s, user=0, pin=SO_A.hex())['rv'] == 0 and A.call('C_InitPIN', s=s, pin=US_A.hex())['rv'] == 0 and A.call('C_Logout', s=s)['rv'] == 0
        assert A.call('C_Login', s=s, user=1, pin=US_A.hex())['rv'] == 0
        for i in range(3):
            tm = {'CKA_CLASS': ck.CKO_DATA, 'CKA_TOKEN': True, 'CKA_PRIVATE': i == 1, 'CKA_LABEL': b'old-%d' % i, 'CKA_APPLICATION': b'app-old', 'CKA_VALUE': b'OLD-VALUE-%d-' % i + b'o' * 20}
            assert A.call('C_CreateObject', s=s, tmpl=A.T(tm))['rv'] == 0
        for h in A.findall(s, {})[1]: A.getattrs(s, h, ['CKA_LABEL', 'CKA_VALUE', 'CKA_APPLICATION', 'CKA_PRIVATE', 'CKA_CLASS'])          # A has looked at everything
        assert A.call('C_CloseAllSessions', slot=slot)['rv'] == 0
        B = ctx.new_exec('asan', d, backend, reuse_dir=True); assert B.call('C_Initialize', locking='os')['rv'] == 0
        bslot = [sl for sl in B.call('C_GetSlotList', count=16)['slots'] if B.call('C_GetTokenInfo', slot=sl)['flags'] & ck.CKF_TOKEN_INITIALIZED][0]
        assert B.call('C_InitToken', slot=bslot, pin=SO_A.hex(), label=b'after-reinit'.hex())['rv'] == 0, 're-init in the second process'
        sb = B.call('C_OpenSession', slot=bslot)['h']; n_b = len(B.findall(sb, {})[1])
        new = {'CKA_CLASS': ck.CKO_DATA, 'CKA_TOKEN': True, 'CKA_PRIVATE': False, 'CKA_LABEL': b'new-0', 'CKA_APPLICATION': b'app-new', 'CKA_VALUE': b'NEW-VALUE-' + b'n' * 20}
        assert B.call('C_CreateObject', s=sb, tmpl=B.T(new))['rv'] == 0; B.call('C_Finalize'); B.close(); B = None
        if n_b: ctx.violation(f'C_InitToken|re-init,{backend}|objects-survive', 'objects of the token are still found right after its re-initialisation', {'backend': backend, 'found': n_b})
        ti = A.call('C_GetTokenInfo', slot=slot); s2 = A.call('C_OpenSession', slot=slot); assert s2['rv'] == 0; s2 = s2['h']
        seen = []
        for h in A.findall(s2, {})[1]:
            rvn, v = A.getattrs(s2, h, ['CKA_LABEL', 'CKA_VALUE', 'CKA_APPLICATION']); seen.append({k: (x.decode('latin-1') if x is not None else None) for k, x in v.items()})
        wit = {'backend': backend, 'seen_by_the_first_process': seen, 'label': bytes.fromhex(ti.get('label', '')).rstrip(b' ').decode('latin-1')}
        if any((o.get('CKA_VALUE') or '').startswith('OLD') or (o.get('CKA_LABEL') or '').startswith('old') or o.get('CKA_APPLICATION') == 'app-old' for o in seen):
            ctx.violation(f'C_InitToken|re-init-by-another-process,{backend}|removed-object-or-its-attributes-still-returned', 'after another process re-initialised the token, this process still returns (attributes of) an object that the re-initialisation removed', wit)
        elif len(seen) != 1: ctx.violation(f'C_InitToken|re-init-by-another-process,{backend}|found-{len(seen)}-objects-instead-of-1', 'after another process re-initialised the token and stored one object, this process does not find exactly that object', wit)
        r = A.call('C_Login', s=s2, user=1, pin=US_A.hex())
        if r['rv'] == 0: ctx.violation(f'C_InitToken|re-init-by-another-process,{backend}|old-user-pin-still-logs-in', 'the user PIN removed by a re-initialisation in another process still logs in here', wit)
        ctx.case(('re-init-two-processes', backend), sample={'two_process_reinit': wit})
        A.call('C_Finalize'); A.close(); A = None
    except AssertionError as e: ctx.inconc(f'two-process re-initialisation scenario failed to set up ({backend}): {e!r}')
    finally:
        for x in (A, B):
            if x is not None: x.kill()

def token_census(x, ck):
    """[(label, flags & INITIALIZED, rv of C_GetTokenInfo)] of every slot with a token present"""
    out = []; x.call('C_GetSlotList', null=True)
    for sl in x.call('C_GetSlotList', count=64)['slots']:
        ti = x.call('C_GetTokenInfo', slot=sl)
        if ti['rv'] != 0: out.append(('?', None, ti['rvname'])); continue
        if ti['flags'] & ck.CKF_TOKEN_INITIALIZED: out.append((bytes.fromhex(ti['label']).rstrip(b' ').decode('latin-1'), True, 'CKR_OK'))
    return sorted(out)

def inittoken_faults(ctx, backend):
    """tokens come from successful C_InitToken calls only: C_InitToken on the free slot with its k-th file-system operation failing (every k); when the call FAILS, a restart must
    find exactly the tokens that existed before (every slot answering C_GetTokenInfo) and the free slot must still take a token; when it returns CKR_OK the new token must be there"""
    import shutil
    ck = ctx.ck; SO = b'so-pin-14f'; gold = ctx.dir('c14f-gold'); x = ctx.new_exec('asan', gold, backend)
    try:
        assert x.call('C_Initialize', locking='os')['rv'] == 0; slot = x.call('C_GetSlotList', count=8)['slots'][-1]
        assert x.call('C_InitToken', slot=slot, pin=SO.hex(), label=b'existing'.hex())['rv'] == 0; x.call('C_Finalize'); x.close(); x = None
        def fresh():
            d = ctx.dir('c14f-run'); shutil.rmtree(d); shutil.copytree(gold, d); mkconf(d, backend); return d, ctx.new_exec('asan', d, backend, reuse_dir=True)
        d, x = fresh(); assert x.call('C_Initialize', locking='os')['rv'] == 0; x.call('C_GetSlotList', null=True); free = x.call('C_GetSlotList', count=8)['slots'][-1]
        x.call('fs', mode='count', root=d + '/tokens'); r0 = x.call('C_InitToken', slot=free, pin=SO.hex(), label=b'new-token'.hex()); N = x.call('fs', mode='status')['nops']; ops = {n: (kind, ('db' + os.path.basename(path)[len('sqlite3.db'):]) if os.path.basename(path).startswith('sqlite3.db') else os.path.basename(path) if '.' in os.path.basename(path) or os.path.basename(path) == 'generation' else 'directory') for n, kind, path in x.call('fs', mode='trace')['trace']}; x.call('fs', mode='off'); x.close(); x = None
        ctx.observe('fs operations of a fresh C_InitToken (fault-free run)', {'backend': backend, 'n': N, 'rv': r0['rvname']})
        for k in range(1, min(N, ctx.q(80, 400)) + 1):
            for errno in ctx.q((5,), (5, 28, 24)):
                d, x = fresh(); assert x.call('C_Initialize', locking='os')['rv'] == 0; x.call('C_GetSlotList', null=True); free = x.call('C_GetSlotList', count=8)['slots'][-1]
                x.call('fs', mode='fail', root=d + '/tokens', k=k, errno=errno)
                try: r = x.call('C_InitToken', slot=free, pin=SO.hex(), label=b'new-token'.hex())
                except Died as e: ctx.observe('side:C17 library terminated the host under an FS fault', {'kind': e.kind(), 'fn': e.fn}); ctx.inconc(f'executor died in C_InitToken under fault k={k}'); x = None; continue
                inj = x.call('fs', mode='status').get('injected'); x.call('fs', mode='off'); op = '%s@%s' % ops.get(k, ('?', '?')); w = dict(backend=backend, k=k, op=op, errno=errno, rv=r['rvname'])
                ctx.case(('inittoken-fault', backend, k, errno, r['rv'] == 0), nontrivial=bool(inj), sample={'inittoken_under_fault': w} if k == 1 else None)
                if r['rv'] != 0:
                    # the free slot still takes a token (the failure is not a trap) ...
                    x.call('C_GetSlotList', null=True); fr = [sl for sl in x.call('C_GetSlotList', count=16)['slots'] if x.call('C_GetTokenInfo', slot=sl).get('flags', ck.CKF_TOKEN_INITIALIZED) & ck.CKF_TOKEN_INITIALIZED == 0]
                    r2 = x.call('C_InitToken', slot=fr[-1], pin=SO.hex(), label=b'retry'.hex()) if fr else {'rv': -1, 'rvname': 'no-free-slot'}
                    if r2['rv'] != 0: ctx.violation(f'C_InitToken|{backend},fail:{op},failed|free-slot-no-longer-takes-a-token', 'after a C_InitToken that failed under a file-system fault the free slot cannot be initialised any more', dict(w, retry=r2['rvname']))
                    # ... and after a restart exactly the tokens that successful calls created exist
                    x.call('C_Finalize'); x.close(); x = ctx.new_exec('asan', d, backend, reuse_dir=True); assert x.call('C_Initialize', locking='os')['rv'] == 0
                    cen = token_census(x, ck); want = sorted([('existing', True, 'CKR_OK')] + ([('retry', True, 'CKR_OK')] if r2['rv'] == 0 else []))
                    if cen != want: ctx.violation(f'C_InitToken|{backend},fail:{op},failed|tokens-after-restart-differ', 'after a C_InitToken that FAILED under a file-system fault, a restart finds other tokens than the successful calls created (a half-made token appears, or a slot does not answer C_GetTokenInfo)', dict(w, found=cen, expected=want))
                else:
                    x.call('C_Finalize'); x.close(); x = ctx.new_exec('asan', d, backend, reuse_dir=True); assert x.call('C_Initialize', locking='os')['rv'] == 0
                    cen = token_census(x, ck)
                    if ('new-token', True, 'CKR_OK') not in cen or len(cen) != 2: ctx.observe('C_InitToken returned CKR_OK under a file-system fault but the restart does not find exactly the two tokens (durability under faults is quantified in C05; not judged here)', dict(w, found=cen))
                x.call('C_Finalize'); x.close(); x = None
    except AssertionError as e: ctx.inconc(f'C_InitToken fault lane could not run ({backend}): {e!r}')
    except Died as e: ctx.observe('side:C17 library terminated the host', {'kind': e.kind(), 'fn': e.fn}); ctx.inconc(f'executor died in the C_InitToken fault lane ({backend})')
    except Hang: ctx.inconc(f'hang in the C_InitToken fault lane ({backend})')
    finally:
        if x is not None: x.kill()

def inittoken_races(ctx, backend):
    """two threads call C_InitToken on the ONE free slot at the same moment (locking enabled): executed one at a time, the first creates the token and the second re-initialises it
    (same SO PIN) or is refused (another SO PIN); either way each round adds exactly ONE token, which a restart confirms"""
    ck = ctx.ck; d = ctx.dir('c14r'); x = ctx.new_exec('asan', d, backend)
    try:
        assert x.call('C_Initialize', locking='os')['rv'] == 0; rounds = ctx.q(5, 16); made = 0
        for rnd_ in range(rounds):
            x.call('C_GetSlotList', null=True); free = x.call('C_GetSlotList', count=64)['slots'][-1]; same = rnd_ % 2 == 0
            pins = [b'so-pin-race-a', b'so-pin-race-a' if same else b'so-pin-race-b']
            scripts = [[{'fn': 'C_InitToken', 'slot': free, 'pin': pins[t].hex(), 'label': (b'race-%d-%d' % (rnd_, t)).hex()}] for t in range(2)]
            r = x.raw({'fn': 'threads', 'scripts': scripts, 'timeout': 120}); rvs = [ck.rv(res[0]['rv']) for res in r['results']]; oks = rvs.count('CKR_OK')
            ctx.case(('inittoken-race', backend, same, tuple(sorted(rvs))), sample={'inittoken_race': rvs} if rnd_ == 0 else None)
            if oks == 0: ctx.violation(f'C_InitToken|{backend},two-threads-one-free-slot|both-failed', 'two simultaneous C_InitToken calls on the free slot both failed', {'rvs': rvs, 'same_pin': same})
            if oks == 2 and not same: ctx.violation(f'C_InitToken|{backend},two-threads-one-free-slot,different-so-pins|both-succeeded', 'two simultaneous C_InitToken calls with DIFFERENT SO PINs on the one free slot both returned CKR_OK (executed one at a time the second is a re-initialisation and needs the first one\'s SO PIN)', {'rvs': rvs})
            made += 1 if oks else 0
        x.call('C_Finalize'); assert x.call('C_Initialize', locking='os')['rv'] == 0
        cen = token_census(x, ck)
        if len(cen) != made or any(c[2] != 'CKR_OK' for c in cen): ctx.violation(f'C_InitToken|{backend},two-threads-one-free-slot|token-count-after-restart-{"more" if len(cen) > made else "less"}', 'after rounds of two simultaneous C_InitToken calls on the free slot a re-initialisation of the library finds another number of tokens than rounds that created one', {'rounds_that_created_a_token': made, 'tokens_found': len(cen), 'labels': [c[0] for c in cen][:20]})
        x.call('C_Finalize')
    except AssertionError as e: ctx.inconc(f'C_InitToken race lane could not run ({backend}): {e!r}')
    except Died as e: ctx.observe('side:C17/C18 library terminated the host in racing C_InitToken', {'kind': e.kind(), 'fn': e.fn}); ctx.inconc(f'executor died in the C_InitToken race lane ({backend})')
    except Hang: ctx.inconc(f'hang in the C_InitToken race lane ({backend})')
    finally: x.kill() if x.p.poll() is None else None

def reconfigured_tokendir(ctx, backend):
    """one process, three initialisations: token directory A, then (softhsm2.conf rewritten) a fresh directory B, then A again -- each initialisation shows exactly the tokens of the
    directory now configured (a token list, slot map or handle cached from the previous initialisation would show up as a token of the other directory)"""
    ck = ctx.ck; d = ctx.dir('c14cfg'); x = ctx.new_exec('asan', d, backend); SO = b'so-pin-14c'
    def conf(sub): os.makedirs(f'{d}/{sub}', exist_ok=True); open(f'{d}/softhsm2.conf', 'w').write(f'directories.tokendir = {d}/{sub}\nobjectstore.backend = {backend}\nlog.level = ERROR\nslots.removable = false\n')
    def init_token(label):
        x.call('C_GetSlotList', null=True); free = x.call('C_GetSlotList', count=16)['slots'][-1]; r = x.call('C_InitToken', slot=free, pin=SO.hex(), label=label.hex()); assert r['rv'] == 0, r
        s = x.call('C_OpenSession', slot=free)['h']; assert x.call('C_Login', s=s, user=0, pin=SO.hex())['rv'] == 0
        r = x.call('C_CreateObject', s=s, tmpl=x.T({'CKA_CLASS': ck.CKO_DATA, 'CKA_TOKEN': True, 'CKA_PRIVATE': False, 'CKA_LABEL': b'obj-of-' + label, 'CKA_VALUE': b'v'})); assert r['rv'] == 0, r
    def objects():
        out = []
        for sl in x.call('C_GetSlotList', count=16)['slots']:
            ti = x.call('C_GetTokenInfo', slot=sl)
            if ti['rv'] == 0 and ti['flags'] & ck.CKF_TOKEN_INITIALIZED:
                s = x.call('C_OpenSession', slot=sl)['h']; out += [x.getattrs(s, h, ['CKA_LABEL'])[1].get('CKA_LABEL') for h in x.findall(s, {})[1]]; x.call('C_CloseSession', s=s)
        return sorted(o.decode('latin-1') if o else '?' for o in out)
    try:
        conf('tokens'); assert x.call('C_Initialize', locking='os')['rv'] == 0; init_token(b'A1'); init_token(b'A2'); cenA = token_census(x, ck); objA = objects(); assert x.call('C_Finalize')['rv'] == 0
        conf('tokensB'); assert x.call('C_Initialize', locking='os')['rv'] == 0; cen0 = token_census(x, ck)
        if cen0: ctx.violation(f'C_Initialize|{backend},token-directory-changed-between-initialisations|tokens-of-the-previous-directory-shown', 'after C_Finalize and a C_Initialize under another directories.tokendir (an empty directory) initialised tokens are listed', {'found': cen0})
        init_token(b'B1'); cenB = token_census(x, ck); objB = objects(); assert x.call('C_Finalize')['rv'] == 0
        conf('tokens'); assert x.call('C_Initialize', locking='os')['rv'] == 0; cenA2 = token_census(x, ck); objA2 = objects()
        if cenA2 != cenA or objA2 != objA: ctx.violation(f'C_Initialize|{backend},token-directory-changed-between-initialisations|tokens-or-objects-differ-after-switching-back', 'after switching to another token directory and back, the tokens / objects of the first directory are not found as they were', {'before': [cenA, objA], 'after': [cenA2, objA2]})
        if [c[0] for c in cenB] != ['B1'] or objB != ['obj-of-B1']: ctx.violation(f'C_Initialize|{backend},token-directory-changed-between-initialisations|second-directory-shows-other-tokens', 'the second token directory does not show exactly the token created in it', {'found': [cenB, objB]})
        ctx.case(('reconfigured-tokendir', backend), sample={'reconfigured_tokendir': {'backend': backend, 'A': cenA, 'B': cenB}}); x.call('C_Finalize')
    except AssertionError as e: ctx.inconc(f'reconfigured-tokendir scenario could not run ({backend}): {e!r}')
    except Died as e: ctx.observe('side:C17 library terminated the host', {'kind': e.kind(), 'fn': e.fn}); ctx.inconc(f'executor died in the reconfigured-tokendir scenario ({backend})')
    except Hang: ctx.inconc(f'hang in the reconfigured-tokendir scenario ({backend})')
    finally: x.kill() if x.p.poll() is None else None

def reinit_after_wrong_user_login(ctx, backend):
    """directed: a failed user login leaves CKF_USER_PIN_COUNT_LOW (positive control); all sessions are closed; the token is re-initialised with the right SO PIN: the user PIN is gone and so is
    every state bit of it, at once, after C_Finalize / C_Initialize and in a new process"""
    ck = ctx.ck; d = ctx.dir('c14w'); x = ctx.new_exec('asan', d, backend); SO, U = b'so-pin-14w', b'user-pin-14w'; UBITS = ck.CKF_USER_PIN_COUNT_LOW | ck.CKF_USER_PIN_FINAL_TRY | ck.CKF_USER_PIN_LOCKED | ck.CKF_USER_PIN_INITIALIZED
    try:
        assert x.call('C_Initialize', locking='os')['rv'] == 0; slot = x.call('C_GetSlotList', count=8)['slots'][-1]
        assert x.call('C_InitToken', slot=slot, pin=SO.hex(), label=b'w1'.hex())['rv'] == 0; s = x.call('C_OpenSession', slot=slot)['h']
        assert x.call('C_Login', s=s, user=0, pin=SO.hex())['rv'] == 0 and x.call('C_InitPIN', s=s, pin=U.hex())['rv'] == 0 and x.call('C_Logout', s=s)['rv'] == 0
        assert x.call('C_Login', s=s, user=1, pin=b'not-the-user-pin'.hex())['rv'] != 0; f0 = x.call('C_GetTokenInfo', slot=slot)['flags']
        x.call('C_CloseAllSessions', slot=slot); assert x.call('C_InitToken', slot=slot, pin=SO.hex(), label=b'w2'.hex())['rv'] == 0
        seen = [('at-once', x.call('C_GetTokenInfo', slot=slot)['flags'])]
        x.call('C_Finalize'); assert x.call('C_Initialize', locking='os')['rv'] == 0
        sl = [q for q in x.call('C_GetSlotList', count=8)['slots'] if x.call('C_GetTokenInfo', slot=q)['flags'] & ck.CKF_TOKEN_INITIALIZED][0]; seen.append(('after-re-initialisation-of-the-library', x.call('C_GetTokenInfo', slot=sl)['flags']))
        x.call('C_Finalize'); x.close(); x = ctx.new_exec('asan', d, backend, reuse_dir=True); assert x.call('C_Initialize', locking='os')['rv'] == 0
        sl = [q for q in x.call('C_GetSlotList', count=8)['slots'] if x.call('C_GetTokenInfo', slot=q)['flags'] & ck.CKF_TOKEN_INITIALIZED][0]; seen.append(('new-process', x.call('C_GetTokenInfo', slot=sl)['flags']))
        for when, fl in seen:
            if fl & UBITS: ctx.violation(f'C_InitToken|re-init-after-failed-user-login,{backend}|user-pin-state-flags-survive({when})', 'a re-initialisation removed the user PIN, but C_GetTokenInfo still reports state bits of it', {'backend': backend, 'when': when, 'flags': hex(fl), 'surviving': hex(fl & UBITS), 'flags_before_reinit': hex(f0)})
        ctx.case(('reinit-after-wrong-user-login', backend), nontrivial=bool(f0 & ck.CKF_USER_PIN_COUNT_LOW), sample={'reinit_after_wrong_user_login': {'backend': backend, 'flags_before': hex(f0), 'after': [(w_, hex(f)) for w_, f in seen]}}); x.call('C_Finalize')
    except AssertionError as e: ctx.inconc(f'reinit-after-wrong-user-login could not run ({backend}): {e!r}')
    except Died as e: ctx.observe('side:C17 library terminated the host', {'kind': e.kind(), 'fn': e.fn}); ctx.inconc(f'executor died in reinit-after-wrong-user-login ({backend})')
    except Hang: ctx.inconc(f'hang in reinit-after-wrong-user-login ({backend})')
    finally: x.kill() if x.p.poll() is None else None

def inittoken_rng_faults(ctx, backend):
    """C_InitToken on the free slot with the k-th request to the random number generator failing (every k): a call that returns CKR_OK has created a token with THE GIVEN SO PIN
    (it logs in, a wrong one does not, a re-initialisation with a wrong SO PIN is refused); a call that fails has created nothing that a restart would find"""
    ck = ctx.ck; SO = b'so-pin-14g'
    def one(k):
        d = ctx.dir('c14g'); x = ctx.new_exec('asan', d, backend)
        try:
            assert x.call('C_Initialize', locking='os')['rv'] == 0; x.call('C_GetSlotList', null=True); free = x.call('C_GetSlotList', count=8)['slots'][-1]
            x.call('rng', mode='fail', k=k) if k else x.call('rng', mode='count')
            r = x.call('C_InitToken', slot=free, pin=SO.hex(), label=b'rng-token'.hex()); st = x.call('rng', mode='status'); x.call('rng', mode='off')
            w = dict(backend=backend, k=k, rv=r['rvname']); ctx.case(('inittoken-rng-fault', backend, k, r['rv'] == 0), nontrivial=bool(k == 0 or st.get('injected')))
            x.call('C_Finalize'); assert x.call('C_Initialize', locking='os')['rv'] == 0; cen = token_census(x, ck)
            if r['rv'] != 0:
                if cen: ctx.violation(f'C_InitToken|{backend},rng-fault,failed|tokens-after-restart-differ', 'a C_InitToken that FAILED because a random-number request failed left something that a re-initialised library shows as a token', dict(w, found=cen))
            else:
                sl = [q for q in x.call('C_GetSlotList', count=8)['slots'] if x.call('C_GetTokenInfo', slot=q).get('flags', 0) & ck.CKF_TOKEN_INITIALIZED]
                if len(sl) != 1: ctx.violation(f'C_InitToken|{backend},rng-fault,ok|token-not-found-after-restart', 'C_InitToken returned CKR_OK (a random-number request had failed) but the token is not there after a re-initialisation', dict(w, found=cen))
                else:
                    s_ = x.call('C_OpenSession', slot=sl[0])['h']; good = x.call('C_Login', s=s_, user=0, pin=SO.hex())['rvname']; x.call('C_Logout', s=s_); bad = x.call('C_Login', s=s_, user=0, pin=b'another-so-pin'.hex())['rvname']; x.call('C_Logout', s=s_); x.call('C_CloseSession', s=s_)
                    ri = x.call('C_InitToken', slot=sl[0], pin=b'another-so-pin'.hex(), label=b'taken-over'.hex())['rvname']
                    if good != 'CKR_OK' or bad == 'CKR_OK' or ri == 'CKR_OK':
                        ctx.violation(f'C_InitToken|{backend},rng-fault,ok|so-pin-not-the-given-one', 'C_InitToken returned CKR_OK although a random-number request failed, and the token does not carry the SO PIN it was given (the right PIN is refused, or a wrong one logs in / re-initialises the token)', dict(w, login_right_pin=good, login_wrong_pin=bad, reinit_wrong_pin=ri))
            x.call('C_Finalize'); return st.get('calls', 0)
        finally: x.kill() if x.p.poll() is None else None
    try:
        N = one(0); ctx.observe('random-number requests of a fresh C_InitToken', {'backend': backend, 'n': N})
        for k in range(1, min(N, 40) + 1):
            try: one(k)
            except Died as e: ctx.observe('the library terminated the host process (exit(5) from the exception barrier) when a random-number request failed inside C_InitToken: an environment fault, outside the quantifiers of C14 and C17; recorded, not judged', {'kind': e.kind(), 'fn': e.fn, 'k': k, 'backend': backend}); ctx.count('inittoken_rng_faults_that_killed_the_host') if hasattr(ctx, 'count') else None
    except AssertionError as e: ctx.inconc(f'C_InitToken RNG-fault lane could not run ({backend}): {e!r}')
    except Hang: ctx.inconc(f'hang in the C_InitToken RNG-fault lane ({backend})')

def reinit_repeatedly(ctx, backend):
    """directed: one process re-initialises the same token four times in a row (objects and a user PIN in between, a second token untouched beside it): every re-initialisation with the
    right SO PIN and no session succeeds, removes the objects and the user PIN, keeps the SO PIN; the neighbour token keeps everything"""
    ck = ctx.ck; d = ctx.dir('c14rr'); x = ctx.new_exec('asan', d, backend); SO, U = b'so-pin-14r', b'user-pin-14r'
    try:
        assert x.call('C_Initialize', locking='os')['rv'] == 0
        slots = []
        for lab in (b'A', b'B'):
            x.call('C_GetSlotList', null=True); free = x.call('C_GetSlotList', count=16)['slots'][-1]; assert x.call('C_InitToken', slot=free, pin=SO.hex(), label=lab.hex())['rv'] == 0; slots.append(free)
            s = x.call('C_OpenSession', slot=free)['h']; assert x.call('C_Login', s=s, user=0, pin=SO.hex())['rv'] == 0 and x.call('C_InitPIN', s=s, pin=U.hex())['rv'] == 0 and x.call('C_Logout', s=s)['rv'] == 0
            assert x.call('C_Login', s=s, user=1, pin=U.hex())['rv'] == 0
            for i in range(3): assert x.call('C_CreateObject', s=s, tmpl=x.T({'CKA_CLASS': ck.CKO_DATA, 'CKA_TOKEN': True, 'CKA_PRIVATE': bool(i % 2), 'CKA_LABEL': lab + b'-%d' % i, 'CKA_VALUE': b'v'}))['rv'] == 0
            x.call('C_CloseAllSessions', slot=free)
        A, B = slots
        for rnd_ in range(4):
            r = x.call('C_InitToken', slot=A, pin=SO.hex(), label=('A%d' % rnd_).encode().hex())
            w = dict(backend=backend, round=rnd_, rv=r['rvname'])
            if r['rv'] != 0: ctx.violation(f'C_InitToken|re-init-number-{min(rnd_ + 1, 2)}-in-one-process,{backend}|right-pin,no-session|refused', 'a re-initialisation with the right SO PIN and no open session was refused (the same token had been re-initialised in this process before)' if rnd_ else 'a re-initialisation with the right SO PIN and no open session was refused', w); break
            s = x.call('C_OpenSession', slot=A)['h']; lo = x.call('C_Login', s=s, user=0, pin=SO.hex())['rvname']; n = len(x.findall(s, {})[1])
            if lo != 'CKR_OK' or n: ctx.violation(f'C_InitToken|re-init-number-{min(rnd_ + 1, 2)}-in-one-process,{backend}|objects-or-so-pin-wrong-afterwards', 'after a re-initialisation the SO PIN does not log in or objects of the token are still found', dict(w, so_login=lo, objects=n))
            assert x.call('C_InitPIN', s=s, pin=U.hex())['rv'] == 0; x.call('C_Logout', s=s); assert x.call('C_Login', s=s, user=1, pin=U.hex())['rv'] == 0
            for i in range(2): x.call('C_CreateObject', s=s, tmpl=x.T({'CKA_CLASS': ck.CKO_DATA, 'CKA_TOKEN': True, 'CKA_PRIVATE': bool(i), 'CKA_LABEL': b'again-%d-%d' % (rnd_, i), 'CKA_VALUE': b'v'}))
            x.call('C_CloseAllSessions', slot=A)
            sb = x.call('C_OpenSession', slot=B)['h']; lb = x.call('C_Login', s=sb, user=1, pin=U.hex())['rvname']; nb = len(x.findall(sb, {})[1]); x.call('C_CloseAllSessions', slot=B)
            if lb != 'CKR_OK' or nb != 3: ctx.violation(f'C_InitToken|re-init-of-the-neighbour-token,{backend}|other-token-changed', 'after token A was re-initialised, token B lost objects or its user PIN', dict(w, user_login_B=lb, objects_B=nb))
            ctx.case(('reinit-repeatedly', backend, rnd_))
        x.call('C_Finalize')
    except AssertionError as e: ctx.inconc(f'reinit-repeatedly could not run ({backend}): {e!r}')
    except Died as e: ctx.observe('side:C17 library terminated the host', {'kind': e.kind(), 'fn': e.fn}); ctx.inconc(f'executor died in reinit-repeatedly ({backend})')
    except Hang: ctx.inconc(f'hang in reinit-repeatedly ({backend})')
    finally: x.kill() if x.p.poll() is None else None

def run(ctx):
    ctx.need('asan')
    for be in ('file', 'db'): reinit_two_process(ctx, be)
    for be in ('file', 'db'): noninterference(ctx, be)
    for be in ('file', 'db'): inittoken_faults(ctx, be); inittoken_races(ctx, be); reconfigured_tokendir(ctx, be); reinit_after_wrong_user_login(ctx, be); inittoken_rng_faults(ctx, be); reinit_repeatedly(ctx, be)
    ctx.rule = ('histories over 2-4 tokens: C_InitToken (fresh on the free slot / re-init, right / wrong SO PIN, with / without sessions), softhsm2-util --init-token / --delete-token of the same build as another actor, '
                'object and PIN operations, C_Finalize/C_Initialize and new-process restarts (40 % of them after stray non-token entries were put into the token directory); after every call every OTHER token is probed (session states, visible object set, an attribute) against the model, '
                'after every restart every token must be found again under slot = last 8 hex digits of the serial & 0x7fffffff with label/flags unchanged, and quiescent audits log in with both PINs and compare all objects; '
                'plus a directed non-interference table: one fixed script on token A (login, close last session, close-all, SO login with / without an RO session, wrong PIN, C_InitToken with / without sessions, re-init) is run under five states of token B and must give identical answers; '
                'distinct = (step kind, token relation / login state) classes exercised')
    run_walks(ctx, {'C14'}, ctx.q(320, 3000), ctx.q(60, 70), backends=('file', 'db'), hook=hook, ntok=2, max_sessions=6)
    ctx.assumptions += ['use of token A\'s handles through token B\'s sessions is outside the property', 'C_CopyObject on the db back-end is a known finding of C05/C20 and excluded from db histories']
if __name__ == '__main__': main('C14', run, min_evaluations=1500, min_distinct=20)
