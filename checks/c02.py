#!/usr/bin/env python3
"""C02 - sensitive or unextractable key material never leaves the token in the clear (DESIGN 3/C02).

 1. reveal table: key kind x origin (created, generated [read while readable, then flipped], unwrapped, derived, copied,
    copy-of-copy) x protected flag pair x every secret attribute of the class, alone and mixed with public attributes at every
    position x buffer {NULL, 0, len-1, len, len+64}: C_GetAttributeValue must answer CKR_ATTRIBUTE_SENSITIVE, report length
    CK_UNAVAILABLE_INFORMATION for that attribute and leave its buffer untouched.
 2. leak scan: from the moment a value is "protected and known", every byte of every reply of every later call of the worker is
    searched for >= 8 consecutive bytes of it.
 3. attack sequences (seeded): wrap attempts (unextractable / WRAP_WITH_TRUSTED under trusted and untrusted keys), set / copy
    templates that try to clear a protection, CONCATENATE_* derivations that ask for an unprotected result."""
import sys, os, shutil, random
sys.path.insert(0, os.path.join(os.path.dirname(os.path.abspath(__file__)), '..', 'vlib'))
from harness import main, Part, pmap, SAN_ENV
import twoproc
from p11client import Exec, Died, Hang, mkconf
import keys_fixed2 as K, mechtable as MT

SECRET_KINDS = ('AES16', 'AES32', 'DES', 'DES2', 'DES3', 'GEN16', 'GEN64', 'HMD5', 'HSHA1', 'HSHA224', 'HSHA256', 'HSHA384', 'HSHA512')
PRIV_KINDS = ('RSApriv', 'DSApriv', 'DHpriv', 'ECpriv', 'EDpriv', 'X25519priv')
PROTECTED = ((True, True), (False, False), (True, False))        # (CKA_SENSITIVE, CKA_EXTRACTABLE)
GENMECH = {'AES16': 'CKM_AES_KEY_GEN', 'AES32': 'CKM_AES_KEY_GEN', 'DES': 'CKM_DES_KEY_GEN', 'DES2': 'CKM_DES2_KEY_GEN', 'DES3': 'CKM_DES3_KEY_GEN', 'GEN16': 'CKM_GENERIC_SECRET_KEY_GEN', 'GEN64': 'CKM_GENERIC_SECRET_KEY_GEN',
           'RSApriv': 'CKM_RSA_PKCS_KEY_PAIR_GEN', 'DSApriv': 'CKM_DSA_KEY_PAIR_GEN', 'DHpriv': 'CKM_DH_PKCS_KEY_PAIR_GEN', 'ECpriv': 'CKM_EC_KEY_PAIR_GEN', 'EDpriv': 'CKM_EC_EDWARDS_KEY_PAIR_GEN'}
# derived origin: (mechanism, base kind, key type of the result, CKA_VALUE_LEN or None)
DERIVE = {'AES16': ('CKM_AES_ECB_ENCRYPT_DATA', 'AES16', 'CKK_AES', 16), 'AES32': ('CKM_DH_PKCS_DERIVE', 'DHpriv', 'CKK_AES', 32), 'DES2': ('CKM_DES3_CBC_ENCRYPT_DATA', 'DES3', 'CKK_DES2', None),
          'DES3': ('CKM_DES3_ECB_ENCRYPT_DATA', 'DES2', 'CKK_DES3', None), 'GEN16': ('CKM_ECDH1_DERIVE', 'ECpriv', 'CKK_GENERIC_SECRET', 16), 'GEN64': ('CKM_CONCATENATE_BASE_AND_DATA', 'GEN32', 'CKK_GENERIC_SECRET', None)}
WIN = 8

class W:
    """worker state: executor, token, the leak scanner"""
    def __init__(s, paths, ck, d, backend, part, rnd):
        conf = mkconf(d, backend, '')
        s.x = Exec(paths['exe'], paths['lib'], conf, ck, env=dict(SAN_ENV), stderr=f'{d}/stderr.log', trace=f'{d}/trace.jsonl'); s.ck = ck; s.part = part; s.rnd = rnd; s.backend = backend
        s.win = {}; s.nprot = 0; s.scanned = 0; s.lastfn = None
        raw = s.x.raw
        def spy(req):
            r = raw(req); s.lastfn = req.get('fn')
            if s.win: s.scan(r, req.get('fn'))
            return r
        s.x.raw = spy
        s.slot, s.s = K.setup_token(s.x, login=False)
        # a trusted wrapping key can only be made by the SO (public token object)
        assert s.x.call('C_Login', s=s.s, user=0, pin=K.SO_PIN.hex())['rv'] == 0
        def somk(kind, label): r = s.x.call('C_CreateObject', s=s.s, tmpl=s.x.T(K.resolve(ck, K.template(kind, token=True, private=False, extra={'CKA_TRUSTED': True}, label=label)))); return r['h'] if r['rv'] == 0 else None
        s.trusted = somk('AES32', b'trusted-wrapper'); s.trusted_des3 = somk('DES3', b'trusted-des3-wrapper'); s.trusted_rsapub = somk('RSApub', b'trusted-rsa-wrapper')
        s.x.call('C_Logout', s=s.s); assert s.x.call('C_Login', s=s.s, user=1, pin=K.USER_PIN.hex())['rv'] == 0
        s.wk_value = rnd.randbytes(32); s.wk = s.mk('AES32', value=s.wk_value); s.des3wk = s.mk('DES3', value=K._odd(rnd.randbytes(24)))
        r = s.x.call('C_CreateObject', s=s.s, tmpl=s.x.T(K.resolve(ck, K.template('RSApub', private=True)))); s.rsapub = r['h'] if r['rv'] == 0 else None       # the user's OWN (untrusted) RSA key pair
        r = s.x.call('C_CreateObject', s=s.s, tmpl=s.x.T(K.resolve(ck, K.template('RSApriv', private=True)))); s.rsapriv = r['h'] if r['rv'] == 0 else None
        for nm in ('trusted', 'trusted_des3', 'trusted_rsapub', 'wk', 'des3wk', 'rsapub', 'rsapriv'):
            if getattr(s, nm) is None: part.inconc(f'helper key {nm} could not be created')
    # ---- leak scanner
    def protect(s, value, tag):
        if value is None or len(value) < WIN: return
        for i in range(len(value) - WIN + 1):
            if value[i:i + WIN] not in MT.DATA32: s.win.setdefault(value[i:i + WIN], tag)      # (the derivation DATA of the mechanism parameter is public, the base-key part is not)
        s.nprot += 1
    def scan(s, r, fn):
        def walk(v):
            if isinstance(v, str):
                if len(v) >= 2 * WIN and len(v) % 2 == 0:
                    try: b = bytes.fromhex(v)
                    except ValueError: return
                    s.scanned += len(b)
                    for i in range(len(b) - WIN + 1):
                        tag = s.win.get(b[i:i + WIN])
                        if tag is not None:
                            s.part.violation(f'{fn}|{tag}|plaintext-in-output', f'the reply of {fn} contains >= {WIN} consecutive bytes of a protected value ({tag})', {'fn': fn, 'offset': i, 'reply_excerpt': v[:200]}); return
            elif isinstance(v, dict):
                for q in v.values(): walk(q)
            elif isinstance(v, list):
                for q in v: walk(q)
        walk(r)
    # ---- object helpers
    def tmpl(s, kind, S, E, value=None, token=False, private=True, extra=None):
        if kind == 'GEN32': t = K.resolve(s.ck, K.template('GEN16', token=token, private=private, extra=dict(extra or {}, CKA_SENSITIVE=S, CKA_EXTRACTABLE=E)))
        else: t = K.resolve(s.ck, K.template(kind, token=token, private=private, extra=dict(extra or {}, CKA_SENSITIVE=S, CKA_EXTRACTABLE=E)))
        if value is not None: t = [(n, (value if n == 'CKA_VALUE' else v)) for n, v in t]
        return t
    def mk(s, kind, S=False, E=True, value=None, **kw):
        r = s.x.call('C_CreateObject', s=s.s, tmpl=s.x.T(s.tmpl(kind, S, E, value, **kw))); return r['h'] if r['rv'] == 0 else None
    def fresh_value(s, kind):
        """a value no other object of this worker has (symmetric kinds only; asymmetric material is fixed)"""
        if kind in K.SECRET_KINDS: return K._odd(s.rnd.randbytes(K.SECRET_KINDS[kind][1]))
        if kind == 'GEN32': return s.rnd.randbytes(32)
        return None
    def read_secrets(s, h, kind):
        names = [n for n, _ in K.secret_attrs('GEN16' if kind == 'GEN32' else kind)]
        rv, a = s.x.getattrs(s.s, h, names); return rv, a
    def flags(s, h):
        _, a = s.x.getattrs(s.s, h, ['CKA_SENSITIVE', 'CKA_EXTRACTABLE', 'CKA_WRAP_WITH_TRUSTED'])
        g = lambda n: (a.get(n) != b'\x00') if a.get(n) is not None else None
        return g('CKA_SENSITIVE'), g('CKA_EXTRACTABLE'), g('CKA_WRAP_WITH_TRUSTED')
    def is_shell(s, src, cp):
        """db back-end: C_CopyObject of a TOKEN object copies only CKA_CLASS (known finding of C08/C20/C05).  Such a copy holds no key
        material at all -- nothing to protect, nothing to leak -- so C02 does not use it as a target; the leak scanner still sees every reply."""
        pub = ['CKA_KEY_TYPE', 'CKA_DERIVE', 'CKA_MODULUS', 'CKA_PRIME', 'CKA_EC_PARAMS', 'CKA_VALUE_LEN']      # every C02 object is made with CKA_DERIVE true (default: false)
        _, a = s.x.getattrs(s.s, src, pub); _, b = s.x.getattrs(s.s, cp, pub)
        if a.get('CKA_KEY_TYPE') is not None and any(a.get(k) != b.get(k) for k in pub):
            s.part.observe('copy of a token object is an empty shell without key material (db back-end copy stub, known finding of C08/C20): not a C02 target', {'backend': s.backend}); s.part.count('empty_shell_copies'); return True
        return False
    def close(s): s.x.close()

def known_material(kind, value):
    if kind in K.SECRET_KINDS or kind == 'GEN32': return {'CKA_VALUE': value}
    return dict(K.secret_attrs(kind))

def make(w, origin, kind, S, E, token, private):
    """build one key by `origin` that ends in state (S, E); returns (handle, {secret attr: known value}) or (None, why)"""
    x = w.x; ck = w.ck; s = w.s
    if origin == 'created':
        v = w.fresh_value(kind); h = w.mk(kind, S, E, v, token=token, private=private); return (h, known_material(kind, v)) if h else (None, 'create failed')
    if origin == 'generated':
        mech = GENMECH.get(kind)
        if mech is None: return None, 'no generation mechanism'
        base = [('CKA_TOKEN', token), ('CKA_PRIVATE', private), ('CKA_SENSITIVE', False), ('CKA_EXTRACTABLE', True), ('CKA_DERIVE', True)]
        if kind in K.SECRET_KINDS:
            t = base + ([('CKA_VALUE_LEN', K.SECRET_KINDS[kind][1])] if mech in ('CKM_AES_KEY_GEN', 'CKM_GENERIC_SECRET_KEY_GEN') else [])
            r = x.call('C_GenerateKey', s=s, mech=x.M(mech), tmpl=x.T(t)); h = r.get('h')
        else:
            fn, kw = MT.genkey_request(x, ck, mech); kw['priv'] = x.T(base); r = x.call(fn, s=s, **kw); h = r.get('hpriv')
            if r['rv'] == 0: x.call('C_DestroyObject', s=s, o=r['hpub'])
        if r['rv'] != 0: return None, f'generate: {r["rvname"]}'
        rv, a = w.read_secrets(h, kind)            # read while still extractable and non-sensitive ...
        if rv != 'CKR_OK' or any(v is None for v in a.values()): return None, f'cannot read a fresh generated key: {rv}'
        for tm in ([('CKA_SENSITIVE', True)] if S else []) + ([('CKA_EXTRACTABLE', False)] if not E else []):      # ... then flip (the allowed directions)
            if x.call('C_SetAttributeValue', s=s, o=h, tmpl=x.T([tm]))['rv'] != 0: return None, 'flip refused'
        return h, a
    if origin == 'unwrapped':
        v = w.fresh_value(kind); src = w.mk(kind, False, True, v, private=True)
        if src is None: return None, 'create failed'
        q = x.call('C_WrapKey', s=s, mech=x.M('CKM_AES_KEY_WRAP_PAD'), wkey=w.wk, key=src, buf=4096); x.call('C_DestroyObject', s=s, o=src)
        if q['rv'] != 0: return None, f'wrap: {q["rvname"]}'
        cls = ck.CKO_SECRET_KEY if kind in K.SECRET_KINDS else ck.CKO_PRIVATE_KEY
        ut = [('CKA_CLASS', cls), ('CKA_KEY_TYPE', ck[K.ktype(kind)]), ('CKA_TOKEN', token), ('CKA_PRIVATE', private), ('CKA_SENSITIVE', S), ('CKA_EXTRACTABLE', E), ('CKA_DERIVE', True)]
        r = x.call('C_UnwrapKey', s=s, mech=x.M('CKM_AES_KEY_WRAP_PAD'), ukey=w.wk, wrapped=q['out']['data'], tmpl=x.T(ut))
        return (r['h'], known_material(kind, v)) if r['rv'] == 0 else (None, f'unwrap: {r["rvname"]}')
    if origin == 'derived':
        if kind not in DERIVE: return None, 'no derivation'
        mech, bk, kt, vlen = DERIVE[kind]; key = ('derive-base', kind)
        if key not in w.__dict__.setdefault('cache', {}):
            b = w.mk(bk, False, True, w.fresh_value(bk), private=True)
            if b is None: return None, 'base create failed'
            def dt(S_, E_, tok, prv): return x.T([('CKA_CLASS', ck.CKO_SECRET_KEY), ('CKA_KEY_TYPE', ck[kt]), ('CKA_TOKEN', tok), ('CKA_PRIVATE', prv), ('CKA_SENSITIVE', S_), ('CKA_EXTRACTABLE', E_), ('CKA_DERIVE', True)] + ([('CKA_VALUE_LEN', vlen)] if vlen else []))
            r = x.call('C_DeriveKey', s=s, mech=MT.params(x, ck, mech, bk), key=b, tmpl=dt(False, True, False, True))      # the same derivation, readable: this is how the driver knows the value
            if r['rv'] != 0: return None, f'derive control: {r["rvname"]}'
            rv, a = w.read_secrets(r['h'], kind); x.call('C_DestroyObject', s=s, o=r['h'])
            if a.get('CKA_VALUE') is None: return None, 'cannot read the control derivation'
            w.cache[key] = (b, a, dt)
        b, a, dt = w.cache[key]
        r = x.call('C_DeriveKey', s=s, mech=MT.params(x, ck, mech, bk), key=b, tmpl=dt(S, E, token, private))
        return (r['h'], dict(a)) if r['rv'] == 0 else (None, f'derive: {r["rvname"]}')
    if origin in ('copied', 'copy-of-copy', 'copy-of-protected'):
        v = w.fresh_value(kind)
        if origin == 'copy-of-protected':
            src = w.mk(kind, S, E, v, private=private); tm = [('CKA_TOKEN', token)]
        else:
            src = w.mk(kind, False, True, v, private=private); tm = [('CKA_TOKEN', token)] + ([('CKA_SENSITIVE', True)] if S else []) + ([('CKA_EXTRACTABLE', False)] if not E else [])
        if src is None: return None, 'create failed'
        r = x.call('C_CopyObject', s=s, o=src, tmpl=x.T(tm))
        if r['rv'] != 0: return None, f'copy: {r["rvname"]}'
        h = r['h']
        if w.is_shell(src, h): return None, 'the copy is an empty shell'
        if origin == 'copy-of-copy':
            r = x.call('C_CopyObject', s=s, o=h, tmpl=x.T([('CKA_LABEL', b'second copy')]))
            if r['rv'] != 0: return None, f'copy of copy: {r["rvname"]}'
            if w.is_shell(h, r['h']): return None, 'the copy is an empty shell'
            h = r['h']
        return h, known_material(kind, v)
    return None, 'unknown origin'

PUBLIC_MIX = ('CKA_LABEL', 'CKA_CLASS', 'CKA_KEY_TYPE', 'CKA_ID')
BUFS = ('NULL', '0', 'len-1', 'len', 'len+64')
def bufsize(b, n): return {'NULL': None, '0': 0, 'len-1': max(0, n - 1), 'len': n, 'len+64': n + 64}[b]

def reveal_cells(w, part, kind, origin, S, E, h, known, store):
    x = w.x; ck = w.ck
    for attr, val in known.items():
        shapes = [('alone', [attr])] + [(f'mixed@{i}', list(PUBLIC_MIX[:2][:i]) + [attr] + list(PUBLIC_MIX[:2][i:])) for i in range(3)] + [('twice', [attr, 'CKA_LABEL', attr])]
        for sname, names in shapes:
            for b in BUFS:
                tm = [{'t': ck[n], 'buf': (bufsize(b, len(val)) if n == attr else 64)} for n in names]
                r = x.call('C_GetAttributeValue', s=w.s, o=h, tmpl=tm)
                cell = (kind, origin, f'S={int(S)},E={int(E)}', attr, sname, b); part.case(cell, nontrivial=True, sample={'cell': cell, 'rv': r['rvname'], 'reply': r.get('tmpl')} if len(part.samples) < 2 else None); part.count('reveal_cells')
                inp = f'{K.ktype(kind) if kind != "GEN32" else "CKK_GENERIC_SECRET"}/{origin},S={int(S)},E={int(E)},{attr},{sname},buf={b}'
                if r['rvname'] != 'CKR_ATTRIBUTE_SENSITIVE':
                    part.violation(f'C_GetAttributeValue|{inp}|rv={r["rvname"]}', f'C_GetAttributeValue({attr}) on a protected key answered {r["rvname"]} instead of CKR_ATTRIBUTE_SENSITIVE', {'cell': cell, 'reply': r.get('tmpl'), 'store': store})
                for n, e in zip(names, r.get('tmpl', [])):
                    if n != attr: continue
                    if e.get('len') != -1: part.violation(f'C_GetAttributeValue|{inp}|length={"value-length" if e.get("len") == len(val) else "other"}', f'the length of {attr} was reported as {e.get("len")} instead of CK_UNAVAILABLE_INFORMATION', {'cell': cell, 'reply': r.get('tmpl'), 'store': store})
                    if e.get('changed', 0) != 0: part.violation(f'C_GetAttributeValue|{inp}|buffer-written', f'{e.get("changed")} byte(s) of the buffer of {attr} were written', {'cell': cell, 'reply': r.get('tmpl'), 'store': store})

def table(w, job, part):
    kind = job['kind']; origins = job['origins']; n = 0
    # controls first (asymmetric material is fixed: every readable instance must be read BEFORE the value is declared protected)
    insts = []
    for origin in origins:
        for (S, E) in ((False, True),) + PROTECTED:
            n += 1; token = (n % 2 == 0) if not job['all_stores'] else None
            for tok in ((token,) if token is not None else (False, True)):
                insts.append((origin, S, E, tok, (n % 3 != 0)))
    made = []
    for origin, S, E, tok, prv in insts:
        if (S, E) != (False, True): continue
        h, known = make(w, origin, kind, S, E, tok, prv)
        if h is None: part.observe('origin not available for this kind', {'kind': kind, 'origin': origin, 'why': known}); continue
        rv, a = w.read_secrets(h, kind); exp = {k: v for k, v in known.items()}
        ok = rv == 'CKR_OK' and all(a.get(k) == v for k, v in exp.items())
        part.case((kind, origin, 'control'), nontrivial=ok); part.count('controls_ok' if ok else 'controls_failed')
        if not ok: part.observe('positive control failed: the readable instance does not return the value the driver believes', {'kind': kind, 'origin': origin, 'rv': rv, 'attrs': {k: (a.get(k) or b'').hex()[:24] for k in exp}})
        made.append((origin, ok)); w.x.call('C_DestroyObject', s=w.s, o=h)
    good = {o for o, ok in made if ok}
    for origin, S, E, tok, prv in insts:
        if (S, E) == (False, True) or origin not in good: continue
        h, known = make(w, origin, kind, S, E, tok, prv)
        if h is None: part.observe('protected instance could not be built', {'kind': kind, 'origin': origin, 'S': S, 'E': E, 'why': known}); continue
        for a, v in known.items(): w.protect(v, f'{K.ktype(kind) if kind != "GEN32" else "CKK_GENERIC_SECRET"}/{origin},{a}')
        s2, e2, _ = w.flags(h)
        if (s2, e2) != (S, E): part.observe('instance did not reach the intended flag pair', {'kind': kind, 'origin': origin, 'want': (S, E), 'got': (s2, e2)})
        if s2 is not True and e2 is not False: continue
        reveal_cells(w, part, kind, origin, bool(s2), bool(e2), h, known, 'token' if tok else 'session')
        oneway_cells(w, part, kind, origin, h, known, 'token' if tok else 'session')
        # a few calls that legitimately produce output with/about the key: their replies run through the leak scanner
        x = w.x
        x.call('C_GetObjectSize', s=w.s, o=h)
        if x.call('C_DigestInit', s=w.s, mech=x.M('CKM_SHA256'))['rv'] == 0: x.call('C_DigestKey', s=w.s, key=h); x.call('C_DigestFinal', s=w.s, buf=64)
        x.call('C_WrapKey', s=w.s, mech=x.M('CKM_AES_KEY_WRAP_PAD'), wkey=w.wk, key=h, buf=4096)
        x.call('C_FindObjectsInit', s=w.s, tmpl=[]); x.call('C_FindObjects', s=w.s, max=50); x.call('C_FindObjectsFinal', s=w.s)
        x.call('C_GetAttributeValue', s=w.s, o=h, tmpl=[{'t': t, 'buf': 256} for t in sorted(w.ck.ATTR) if w.ck.ATTR[t] not in ('CKA_WRAP_TEMPLATE', 'CKA_UNWRAP_TEMPLATE', 'CKA_DERIVE_TEMPLATE')])
        x.call('C_DestroyObject', s=w.s, o=h)

BYTES = (0x00, 0x01, 0x02, 0x80, 0xFF)          # CK_BBOOL as raw bytes: the two canonical values and three non-canonical "true"s
def bclass(b): return 'canonical' if b in (0, 1) else 'non-canonical'
def still_protected(w, part, fn, h, kind, was, known, ik, wit):
    """judge a set/copy attempt by its EFFECT on object h: was = (S, E, WT) before.  Only lost protection is a violation."""
    x = w.x; s3, e3, w3 = w.flags(h); lost = False
    for nm, bad in (('CKA_SENSITIVE', was[0] is True and s3 is not True), ('CKA_EXTRACTABLE', was[1] is False and e3 is not False), ('CKA_WRAP_WITH_TRUSTED', was[2] is True and w3 is not True)):
        if bad: lost = True; part.violation(f'{fn}|{ik},{nm}|protection-removed', f'{fn} produced an object whose {nm} no longer reads protected', wit)
    if (was[0] is True or was[1] is False) and known:
        a, v = next(iter(known.items())); r = x.call('C_GetAttributeValue', s=w.s, o=h, tmpl=[{'t': w.ck[a], 'buf': len(v) + 8}]); e = (r.get('tmpl') or [{}])[0]
        if r['rv'] == 0 or e.get('len') != -1 or e.get('changed', 0) != 0:
            lost = True; part.violation(f'{fn}|{ik},then-C_GetAttributeValue|revealed', f'after {fn} the secret attribute {a} is answered with rv={r["rvname"]} len={e.get("len")} changed={e.get("changed")}', wit)
    if was[1] is False or was[2] is True:
        r = x.call('C_WrapKey', s=w.s, mech=x.M('CKM_AES_KEY_WRAP_PAD'), wkey=w.wk, key=h, buf=4096)       # w.wk is NOT trusted
        if r['rv'] == 0: lost = True; part.violation(f'{fn}|{ik},then-C_WrapKey|wrapped', f'after {fn} the key can be wrapped under an untrusted key although it was {"unextractable" if was[1] is False else "WRAP_WITH_TRUSTED"}', wit)
    return (s3, e3, w3), lost

def oneway_cells(w, part, kind, origin, h, known, store):
    """every one-way flag x raw CK_BBOOL byte x {set, copy}, judged by effect"""
    x = w.x; kt = K.ktype(kind) if kind != 'GEN32' else 'CKK_GENERIC_SECRET'
    x.call('C_SetAttributeValue', s=w.s, o=h, tmpl=x.T([('CKA_WRAP_WITH_TRUSTED', True)]))       # allowed direction
    was = w.flags(h)
    for attr, on in (('CKA_SENSITIVE', was[0] is True), ('CKA_EXTRACTABLE', was[1] is False), ('CKA_WRAP_WITH_TRUSTED', was[2] is True)):
        if not on: continue
        for b in BYTES:
            for tm, shape in (([(attr, {'bool': b})], 'alone'), ([('CKA_LABEL', b'x'), (attr, {'bool': b})], 'after-label')):
                for op, fn in (('set', 'C_SetAttributeValue'), ('copy', 'C_CopyObject')):
                    r = x.call(fn, s=w.s, o=h, tmpl=x.T(tm)); tgt = h if op == 'set' else (r['h'] if r['rv'] == 0 else None)
                    part.case((kind, origin, 'one-way', attr, hex(b), shape, op, f'S={int(bool(was[0]))},E={int(bool(was[1]))}'), nontrivial=True); part.count('oneway_cells')
                    if tgt is None: continue
                    if op == 'copy' and w.is_shell(h, tgt): x.call('C_DestroyObject', s=w.s, o=tgt); continue
                    ik = f'{kt}/{origin},{attr}:=byte-{bclass(b)}'
                    now, lost = still_protected(w, part, fn, tgt, kind, was, known, ik, {'kind': kind, 'origin': origin, 'store': store, 'attr': attr, 'byte': hex(b), 'template': [n for n, _ in tm], 'rv': r['rvname'], 'flags_before': was})
                    if op == 'copy': x.call('C_DestroyObject', s=w.s, o=tgt)
                    elif lost: return          # the object itself lost its protection: nothing more to learn from it

# ---------------------------------------------------------------- wrap guards: every wrap mechanism x wrapping-key class x trusted/untrusted x wrapped key x state
WRAPPERS = (('AES', 'wk', 'trusted', ('CKM_AES_KEY_WRAP', 'CKM_AES_KEY_WRAP_PAD', 'CKM_AES_CBC_PAD', 'CKM_AES_CBC', 'CKM_AES_ECB', 'CKM_AES_CTR', 'CKM_AES_GCM')),
            ('DES3', 'des3wk', 'trusted_des3', ('CKM_DES3_CBC_PAD', 'CKM_DES3_CBC', 'CKM_DES3_ECB')),
            ('RSA-public', 'rsapub', 'trusted_rsapub', ('CKM_RSA_PKCS', 'CKM_RSA_PKCS_OAEP', 'CKM_RSA_X_509')))
WRAPPED = ('AES16', 'AES32', 'DES3', 'GEN16', 'GEN64', 'HSHA256', 'RSApriv', 'DSApriv', 'DHpriv', 'ECpriv', 'EDpriv')
STATES = (('readable', False, True, False), ('unextractable', False, False, False), ('unextractable+sensitive', True, False, False), ('wrap-with-trusted', False, True, True),
          ('wrap-with-trusted+sensitive', True, True, True), ('wrap-with-trusted+unextractable', True, False, True))
def recover(w, part, mech, wname, blob, kind, known):
    """a forbidden wrap succeeded: if the driver holds the matching unwrapping key, get the bytes back (the replies pass through the leak scanner) -> recovered?"""
    x = w.x; ck = w.ck
    if wname == 'rsapub' and w.rsapriv:
        if x.call('C_DecryptInit', s=w.s, mech=MT.params(x, ck, mech), key=w.rsapriv)['rv'] != 0: return None
        r = x.call('C_Decrypt', s=w.s, data=blob, buf=4096); v = bytes.fromhex(r['out'].get('data', '')) if r['rv'] == 0 else None
        return v is not None and any(v == kv for kv in known.values())
    uk = getattr(w, wname)
    if wname in ('wk', 'des3wk', 'trusted', 'trusted_des3') and kind in K.SECRET_KINDS:
        r = x.call('C_UnwrapKey', s=w.s, mech=MT.params(x, ck, mech), ukey=uk, wrapped=blob, tmpl=x.T([('CKA_CLASS', ck.CKO_SECRET_KEY), ('CKA_KEY_TYPE', ck[K.ktype(kind)]), ('CKA_TOKEN', False), ('CKA_PRIVATE', True), ('CKA_SENSITIVE', False), ('CKA_EXTRACTABLE', True)]))
        if r['rv'] != 0: return None
        _, a = x.getattrs(w.s, r['h'], ['CKA_VALUE']); x.call('C_DestroyObject', s=w.s, o=r['h']); return a.get('CKA_VALUE') in known.values()
    return None

def wrapguards(w, job, part):
    x = w.x; ck = w.ck
    for token in (False, True):
        for kind in WRAPPED:
            objs = {}
            for st, S, E, WT in STATES:
                v = w.fresh_value(kind); h = w.mk(kind, S, E, v, token=token, private=True, extra=({'CKA_WRAP_WITH_TRUSTED': True} if WT else None))
                if h is None: part.observe('wrap-guard target could not be built', {'kind': kind, 'state': st}); continue
                known = known_material(kind, v)
                if S or not E:
                    for a, val in known.items(): w.protect(val, f'{K.ktype(kind)}/created,{a}')
                objs[st] = (h, S, E, WT, known)
            for wclass, uname, tname, mechs in WRAPPERS:
                for mech in mechs:
                    for wname, trusted in ((uname, False), (tname, True)):
                        wk = getattr(w, wname)
                        if wk is None or 'readable' not in objs: continue
                        # positive control: the readable, unrestricted key of this kind wraps under this key with this mechanism
                        c = x.call('C_WrapKey', s=w.s, mech=MT.params(x, ck, mech), wkey=wk, key=objs['readable'][0], buf=8192); live = c['rv'] == 0 and c['out']['len'] > 0
                        part.count('wrap_controls_ok' if live else 'wrap_controls_refused')
                        for st, (h, S, E, WT, known) in objs.items():
                            if st == 'readable': continue
                            r = x.call('C_WrapKey', s=w.s, mech=MT.params(x, ck, mech), wkey=wk, key=h, buf=8192); ok = r['rv'] == 0
                            part.case(('wrap-guard', 'token' if token else 'session', kind, st, wclass, 'trusted' if trusted else 'untrusted', mech), nontrivial=live); part.count('wrap_guard_cells')
                            why = 'CKA_EXTRACTABLE=false' if not E else ('CKA_WRAP_WITH_TRUSTED=true,wrapping-key-untrusted' if (WT and not trusted) else None)
                            if ok and why:
                                rec = recover(w, part, mech, wname, r['out'].get('data', ''), kind, known)
                                part.violation(f'C_WrapKey|{mech},wrapping={wclass}/{"trusted" if trusted else "untrusted"},key={K.ktype(kind)},{why}|wrapped' + ('+value-recovered' if rec else ''),
                                               f'C_WrapKey({mech}) under a{" trusted" if trusted else "n untrusted"} {wclass} key wrapped a {K.ktype(kind)} key in state "{st}" ({why})' + ('; the driver then recovered the exact key value with its own unwrapping key' if rec else ''),
                                               {'kind': kind, 'state': st, 'store': 'token' if token else 'session', 'mechanism': mech, 'wrapping_key': wname, 'recovered': rec})
                            elif ok and WT and trusted: part.count('wrapped_under_trusted_key_ok')
            for h, *_ in objs.values(): x.call('C_DestroyObject', s=w.s, o=h)

# ---------------------------------------------------------------- attack sequences
class Prot:
    def __init__(s, h, kind, S, E, WT, known, note): s.h = h; s.kind = kind; s.S = S; s.E = E; s.WT = WT; s.known = known; s.note = note
WRAPS = tuple((m, k) for k, ms in (('wk', ('CKM_AES_KEY_WRAP', 'CKM_AES_KEY_WRAP_PAD', 'CKM_AES_CBC_PAD', 'CKM_AES_CBC')), ('trusted', ('CKM_AES_KEY_WRAP', 'CKM_AES_KEY_WRAP_PAD', 'CKM_AES_CBC_PAD', 'CKM_AES_CBC')),
                                              ('rsapub', ('CKM_RSA_PKCS', 'CKM_RSA_PKCS_OAEP')), ('trusted_rsapub', ('CKM_RSA_PKCS', 'CKM_RSA_PKCS_OAEP')), ('des3wk', ('CKM_DES3_CBC_PAD', 'CKM_DES3_CBC')), ('trusted_des3', ('CKM_DES3_CBC_PAD',))) for m in ms)

def attacks(w, job, part):
    x = w.x; ck = w.ck
    for seed in job['seeds']:
        rnd = random.Random(seed); steps = []
        kind = rnd.choice(SECRET_KINDS[:7] + ('HSHA256',) + PRIV_KINDS[:5]); S, E = rnd.choice(PROTECTED + (((False, True),) if kind in K.SECRET_KINDS else ())); WT = rnd.random() < .5 or (S, E) == (False, True)
        # (a readable target exists only for symmetric kinds: their values are fresh per object, asymmetric material is shared by all objects of the worker)
        origin = rnd.choice(['created', 'created', 'generated', 'unwrapped', 'copied', 'derived'])
        if origin == 'derived' and kind not in DERIVE: origin = 'created'
        if origin == 'generated' and (kind not in GENMECH or kind == 'RSApriv'): origin = 'created'
        if origin == 'derived' and (S, E) == (False, True): S, E = True, True      # a derivation is deterministic: its value is shared with the other derived instances of the worker, so it must never be readable
        h, known = make(w, origin, kind, S, E, rnd.random() < .3, rnd.random() < .7)
        if h is None: part.observe('attack target could not be built', {'kind': kind, 'origin': origin, 'why': known}); continue
        if WT:
            if x.call('C_SetAttributeValue', s=w.s, o=h, tmpl=x.T([('CKA_WRAP_WITH_TRUSTED', True)]))['rv'] != 0: WT = False
        s2, e2, wt2 = w.flags(h)
        if s2 is True or e2 is False:
            for a, v in known.items(): w.protect(v, f'{K.ktype(kind)}/{origin},{a}')
        pool = [Prot(h, kind, s2, e2, wt2, known, origin)]; steps.append(('target', kind, origin, s2, e2, wt2)); part.count('attack_sequences')
        def wit(): return {'seed': seed, 'steps': steps[-12:]}
        for _ in range(job['steps']):
            p = rnd.choice(pool); act = rnd.choice(['wrap', 'wrap', 'set', 'copy', 'copy-plain', 'derive', 'derive', 'read'])
            tk = f'{K.ktype(p.kind)},S={int(bool(p.S))},E={int(bool(p.E))},WT={int(bool(p.WT))}'
            if act == 'wrap':
                mech, wkn = rnd.choice(WRAPS); wk = getattr(w, wkn)
                if wk is None: continue
                r = x.call('C_WrapKey', s=w.s, mech=MT.params(x, ck, mech), wkey=wk, key=p.h, buf=4096); steps.append(('wrap', mech, wkn, p.h, r['rvname']))
                nt = p.E is False or (p.WT is True and not wkn.startswith('trusted')); part.case(('attack', 'wrap', mech, wkn, tk), nontrivial=nt); part.count('attack_steps')
                if r['rv'] == 0 and p.E is False: part.violation(f'C_WrapKey|{mech},key={K.ktype(p.kind)},CKA_EXTRACTABLE=false|wrapped', 'a key with CKA_EXTRACTABLE false was wrapped', wit())
                if r['rv'] == 0 and p.WT is True and not wkn.startswith('trusted'): part.violation(f'C_WrapKey|{mech},key={K.ktype(p.kind)},CKA_WRAP_WITH_TRUSTED=true,wrapping-key-untrusted|wrapped', 'a CKA_WRAP_WITH_TRUSTED key was wrapped under a key whose CKA_TRUSTED is not true', wit())
                if r['rv'] == 0 and p.WT is True and wkn.startswith('trusted'): part.count('wrapped_under_trusted_key_ok')
            elif act in ('set', 'copy'):
                clear = [a for a, on in (('CKA_SENSITIVE', p.S is True), ('CKA_EXTRACTABLE', p.E is False), ('CKA_WRAP_WITH_TRUSTED', p.WT is True)) if on]
                if not clear: continue
                # raw CK_BBOOL bytes: whether a non-canonical byte is rejected or normalised is the token's choice -- judged by effect only
                tm = [(a, {'bool': rnd.choice(BYTES)}) for a in rnd.sample(clear, rnd.randint(1, len(clear)))]; vals = '+'.join(sorted({bclass(v['bool']) for _, v in tm}))
                if rnd.random() < .5: tm.insert(rnd.randint(0, len(tm)), ('CKA_LABEL', b'x'))
                if act == 'copy' and rnd.random() < .4: tm.append(('CKA_TOKEN', rnd.random() < .5))
                fn = 'C_SetAttributeValue' if act == 'set' else 'C_CopyObject'
                r = x.call(fn, s=w.s, o=p.h, tmpl=x.T(tm)); steps.append((act, [(n, (hex(v['bool']) if isinstance(v, dict) else '')) for n, v in tm], p.h, r['rvname'])); part.case(('attack', act, tuple(sorted(n for n, _ in tm if n != 'CKA_LABEL')), vals, tk), nontrivial=True); part.count('attack_steps')
                tgt = p.h if act == 'set' else (r['h'] if r['rv'] == 0 else None)
                if tgt and act == 'copy' and w.is_shell(p.h, tgt): x.call('C_DestroyObject', s=w.s, o=tgt); tgt = None
                if tgt:
                    (s3, e3, w3), _ = still_protected(w, part, fn, tgt, p.kind, (p.S, p.E, p.WT), p.known, f'{K.ktype(p.kind)},bytes-{vals},in-sequence', wit())
                    if act == 'copy': pool.append(Prot(tgt, p.kind, s3, e3, w3, p.known, 'copy'))
                    else: p.S, p.E, p.WT = s3, e3, w3
            elif act == 'copy-plain':
                r = x.call('C_CopyObject', s=w.s, o=p.h, tmpl=x.T([('CKA_TOKEN', rnd.random() < .3)])); steps.append(('copy-plain', p.h, r['rvname']))
                if r['rv'] == 0 and w.is_shell(p.h, r['h']): x.call('C_DestroyObject', s=w.s, o=r['h'])
                elif r['rv'] == 0:
                    s3, e3, w3 = w.flags(r['h']); part.case(('attack', 'copy-plain', tk), nontrivial=True); part.count('attack_steps')
                    for nm, lost in (('CKA_SENSITIVE', p.S is True and s3 is not True), ('CKA_EXTRACTABLE', p.E is False and e3 is not False), ('CKA_WRAP_WITH_TRUSTED', p.WT is True and w3 is not True)):
                        if lost: part.violation(f'C_CopyObject|{K.ktype(p.kind)},{nm},plain-copy|protection-removed', f'a plain copy lost {nm}', wit())
                    pool.append(Prot(r['h'], p.kind, s3, e3, w3, p.known, 'copy'))
            elif act == 'derive':
                if p.kind not in K.SECRET_KINDS and p.kind != 'GEN32': continue
                mech = rnd.choice(['CKM_CONCATENATE_BASE_AND_KEY', 'CKM_CONCATENATE_BASE_AND_DATA', 'CKM_CONCATENATE_DATA_AND_BASE', 'CKM_CONCATENATE_BASE_AND_KEY'])
                x.call('C_SetAttributeValue', s=w.s, o=p.h, tmpl=x.T([('CKA_DERIVE', True)]))
                ask = rnd.choice([[('CKA_SENSITIVE', False), ('CKA_EXTRACTABLE', True)], [('CKA_SENSITIVE', False)], [('CKA_EXTRACTABLE', True)], []])
                tm = [('CKA_CLASS', ck.CKO_SECRET_KEY), ('CKA_KEY_TYPE', ck.CKK_GENERIC_SECRET), ('CKA_TOKEN', False), ('CKA_PRIVATE', rnd.random() < .5)] + ask; rnd.shuffle(tm)
                role = 'base'
                if mech == 'CKM_CONCATENATE_BASE_AND_KEY':
                    plain = w.mk('GEN16', False, True, w.fresh_value('GEN16'), extra={'CKA_DERIVE': True})
                    if rnd.random() < .5: base, other, role = p.h, plain, 'base'
                    else: base, other, role = plain, p.h, 'other'
                    m = MT.params(x, ck, mech, None, other)
                else: base = p.h; m = MT.params(x, ck, mech)
                r = x.call('C_DeriveKey', s=w.s, mech=m, key=base, tmpl=x.T(tm)); steps.append(('derive', mech, role, [n for n, _ in ask], p.h, r['rvname']))
                part.case(('attack', 'derive', mech, role, tuple(n for n, _ in ask), tk), nontrivial=(p.S is True or p.E is False)); part.count('attack_steps')
                if r['rv'] != 0: continue
                s3, e3, w3 = w.flags(r['h']); ik = f'{mech},protected-key-as-{role},asks={"+".join(n for n, _ in ask) or "nothing"}'
                if p.S is True and s3 is not True: part.violation(f'C_DeriveKey|{ik}|derived-key-not-sensitive', 'the derived key of a sensitive key is not sensitive', wit())
                if p.E is False and e3 is not False: part.violation(f'C_DeriveKey|{ik}|derived-key-extractable', 'the derived key of an unextractable key is extractable', wit())
                d = Prot(r['h'], 'GEN64', s3, e3, w3, {}, 'derived'); pool.append(d)      # its value embeds the protected value: the leak scanner watches every later reply
                part.count('derived_from_protected')
            else:
                names = [n for n, _ in K.secret_attrs(p.kind)] if p.kind in K.ALL_KINDS else ['CKA_VALUE']
                a = rnd.choice(names); mix = rnd.sample(list(PUBLIC_MIX), rnd.randint(0, 3)); mix.insert(rnd.randint(0, len(mix)), a)
                r = x.call('C_GetAttributeValue', s=w.s, o=p.h, tmpl=[{'t': ck[n], 'buf': rnd.choice([None, 0, 7, 16, 64, 512])} for n in mix]); steps.append(('read', mix, p.h, r['rvname']))
                prot = p.S is True or p.E is False; part.case(('attack', 'read', a, tk), nontrivial=prot); part.count('attack_steps')
                if prot:
                    e = r.get('tmpl', [{}] * len(mix))[mix.index(a)]
                    if e.get('len') != -1 or e.get('changed', 0) != 0 or r['rv'] == 0:
                        part.violation(f'C_GetAttributeValue|{K.ktype(p.kind)}/{p.note},S={int(bool(p.S))},E={int(bool(p.E))},{a},in-sequence|revealed', f'{a} of a protected key was answered with rv={r["rvname"]} len={e.get("len")} changed={e.get("changed")}', wit())
        for p in pool: x.call('C_DestroyObject', s=w.s, o=p.h)

# ---------------------------------------------------------------- a protected token key whose object file was cut off at a record boundary (what a failed / short write of a rewrite leaves)
def cutoff_jobs(ctx, p):
    """used by checks/c16.py: the trigger is an interrupted rewrite (C16), the outcome watched is the one C02 cares about"""
    jobs = []
    for kind in ctx.q(('AES16',), ('AES16', 'AES32', 'DES3', 'GEN64', 'RSApriv', 'ECpriv')):
        for priv in (False, True):
            for st in [q[0] for q in STATES[1:]]: jobs.append(dict(paths=p, hdr=p['hdr'], scratch=ctx.scratch, what='cutoff', kind=kind, private=priv, state=st, name=f'cutoff-{kind}-{int(priv)}-{st}', rseed=ctx.seed * 19 + len(jobs)))
    return jobs

def cutoff_job(job):
    """"can never be wrapped" / "no call returns its value" also for the key a NEW process finds after a rewrite of the key's file was cut short (disk full at a buffer boundary):
    the file is cut at EVERY attribute-record boundary (each prefix parses as a well-formed object); whatever the library then makes of it, the recorded value must not come out"""
    from ck import CK
    import objfile, refcrypt as R
    ck = CK(job['hdr']); part = Part(); kind = job['kind']; rnd = random.Random(job['rseed']); base = os.path.join(job['scratch'], job['name']); gold = base + '-gold'; d = base + '-run'
    for q in (gold, d): shutil.rmtree(q, ignore_errors=True)
    os.makedirs(gold); w = None; x = None
    try:
        w = W(job['paths'], ck, gold, 'file', part, rnd); v = w.fresh_value(kind); states = {}
        for st, S, E, WT in [q for q in STATES[1:] if q[0] == job['state']]:      # ONE victim per token directory: whatever comes out of this token that equals the recorded value came from the victim
            h = w.mk(kind, S, E, v, token=True, private=job['private'], extra=dict({'CKA_WRAP_WITH_TRUSTED': True} if WT else {}, CKA_LABEL=b'VICTIM-' + st.encode(), CKA_ID=rnd.randbytes(rnd.choice([3, 40, 300]))))
            if h is not None: states[st] = (S, E, WT)
        known = known_material(kind, v); wkv = w.wk_value
        r = w.x.call('C_CreateObject', s=w.s, tmpl=w.x.T(w.tmpl('AES32', False, True, wkv, token=True, private=False, extra={'CKA_LABEL': b'WRAPPER', 'CKA_WRAP': True}))); assert r['rv'] == 0, r
        w.x.call('C_Finalize'); w.close(); w = None
        files = {}
        for root_, _, fs in os.walk(gold + '/tokens'):
            for f in fs:
                if f.endswith('.object') and f != 'token.object':
                    b = open(os.path.join(root_, f), 'rb').read(); pz = objfile.parse(b); lab = pz.attrs.get(ck.CKA_LABEL)
                    if isinstance(lab, (bytes, bytearray)) and bytes(lab).startswith(b'VICTIM-'): files[bytes(lab)[7:].decode()] = (os.path.relpath(os.path.join(root_, f), gold), b)
                    elif job['private']:      # the label of a private object is encrypted: recognise the victims by their number of records instead (helpers have no CKA_ID of these lengths)
                        pass
        if not files and job['private']:
            # private victims: every object file except the helpers' -- identify by CKA_WRAP_WITH_TRUSTED / flags is not possible either; take the files created last (the victims were created last, before WRAPPER)
            cand = sorted(((os.path.getmtime(os.path.join(r_, f)), os.path.relpath(os.path.join(r_, f), gold)) for r_, _, fs in os.walk(gold + '/tokens') for f in fs if f.endswith('.object') and f != 'token.object'))
            for (mt, rel), st in zip(cand[-(len(states) + 1):-1], states): files[st] = (rel, open(os.path.join(gold, rel), 'rb').read())
        for st, (rel, b) in files.items():
            S, E, WT = states[st]; cuts = [c for c in range(8, len(b)) if (lambda pz: pz.status == 'valid' and pz.consumed == c)(objfile.parse(b[:c]))]
            part.count('cutoff_boundaries', len(cuts))
            for c in cuts:
                shutil.rmtree(d, ignore_errors=True); shutil.copytree(gold, d); open(os.path.join(d, rel), 'r+b').truncate(c)
                missing = sorted(set(objfile.parse(b).attrs) - set(objfile.parse(b[:c]).attrs)); first_missing = ck.ATTR.get(missing[0], hex(missing[0])) if missing else '-'
                x = Exec(job['paths']['exe'], job['paths']['lib'], mkconf(d, 'file', ''), ck, env=dict(SAN_ENV), stderr=f'{d}/stderr.log')
                try:
                    assert x.call('C_Initialize', locking='os')['rv'] == 0
                    slot = [sl for sl in x.call('C_GetSlotList', count=8)['slots'] if x.call('C_GetTokenInfo', slot=sl)['flags'] & ck.CKF_TOKEN_INITIALIZED][0]
                    s_ = x.call('C_OpenSession', slot=slot)['h']; assert x.call('C_Login', s=s_, user=1, pin=K.USER_PIN.hex())['rv'] == 0
                    rvn, hs = x.findall(s_, {}); wk = [h for h in hs if x.getattrs(s_, h, ['CKA_LABEL'])[1].get('CKA_LABEL') == b'WRAPPER']
                    outs = []; reads = []
                    for h in hs:
                        if h in wk: continue
                        names = [n for n, _ in K.secret_attrs(kind)]; rv, a = x.getattrs(s_, h, names); reads += [bytes(q) for q in a.values() if q]
                        for mech in ('CKM_AES_KEY_WRAP_PAD', 'CKM_AES_CBC_PAD', 'CKM_AES_KEY_WRAP'):
                            if not wk: break
                            iv = b'\x00' * 16; r = x.call('C_WrapKey', s=s_, mech=(x.M(mech, hex=iv.hex()) if mech == 'CKM_AES_CBC_PAD' else x.M(mech)), wkey=wk[0], key=h, buf=8192)
                            if r['rv'] != 0 or not r['out'].get('data'): continue
                            blob = bytes.fromhex(r['out']['data'])
                            try: pt = R.kwp_unwrap(R.AES(wkv), blob) if mech == 'CKM_AES_KEY_WRAP_PAD' else R.cbc_pad_decrypt(R.AES(wkv), iv, blob) if mech == 'CKM_AES_CBC_PAD' else R.kw_unwrap(R.AES(wkv), blob)
                            except Exception: pt = None
                            if pt: outs.append(bytes(pt)); part.count('cutoff_wraps_that_succeeded')
                    hit = lambda pool: sorted(a for a, val in known.items() if val and len(val) >= 8 and any(val in o for o in pool))
                    by_read = hit(reads) if (S or not E) else []; by_wrap = hit(outs) if (not E or WT) else []      # (a readable key may be read; a key that is only WRAP_WITH_TRUSTED may not be wrapped under the untrusted key)
                    present = set(objfile.parse(b[:c]).attrs); lost = '+'.join(n for n, on in (('CKA_SENSITIVE', S), ('CKA_EXTRACTABLE', not E), ('CKA_WRAP_WITH_TRUSTED', WT)) if on and ck[n] not in present) or 'none'
                    part.case(('cut-off', kind, st, 'private' if job['private'] else 'public', first_missing), nontrivial=True, sample={'cut_off_key_file': [kind, st, c, len(b), first_missing, len(hs)]} if c == cuts[0] else None); part.count('cutoff_cases')
                    for how, leaked in (('read', by_read), ('wrapped-under-an-untrusted-key', by_wrap)):
                        if leaked: part.violation(f'rewrite-cut-at-record-boundary|key={K.ktype(kind)},state={st},stored-protection-lost={lost}|protected-value-{how}', 'a protected token key whose file was cut short at a record boundary (a rewrite interrupted between two write() calls) gives up its value in the recovering process', {'kind': kind, 'state': st, 'cut': c, 'of': len(b), 'leaked': leaked, 'missing_attributes': [ck.ATTR.get(m, hex(m)) for m in missing][:12], 'private': job['private']})
                    x.call('C_Finalize')
                except AssertionError as e: part.observe('cut-off key file: the token could not be opened (no verdict here)', {'kind': kind, 'cut': c, 'error': repr(e)[:200]})
                except Died as e: part.observe('side:C17 library terminated the host on a cut-off key file', {'kind': e.kind(), 'fn': e.fn})
                finally: x.close(); x = None
    except AssertionError as e: part.inconc(f'cut-off lane setup failed ({kind}): {e!r}')
    except Died as e: part.inconc(f'executor died in the cut-off lane set-up ({kind}): {e}')
    except Hang: part.inconc(f'hang in the cut-off lane ({kind})')
    finally:
        if w is not None:
            try: w.close()
            except Exception: pass
        for q in (gold, d): shutil.rmtree(q, ignore_errors=True)
    return part

def worker(job):
    if job['what'] == 'cutoff': return cutoff_job(job)
    from ck import CK
    ck = CK(job['hdr']); part = Part(); d = os.path.join(job['scratch'], job['name']); shutil.rmtree(d, ignore_errors=True); os.makedirs(d); w = None
    try:
        w = W(job['paths'], ck, d, job['backend'], part, random.Random(job['rseed']))
        if job['what'] == 'table': table(w, job, part)
        elif job['what'] == 'wrapguard': wrapguards(w, job, part)
        else: attacks(w, job, part)
        part.count('protected_values', w.nprot); part.count('bytes_scanned', w.scanned)
    except Died as e:
        part.observe('side:C17 library terminated the host', {'kind': e.kind(), 'fn': e.fn, 'where': e.where(), 'job': job['name']}); part.inconc(f'executor died ({e.kind()} in {e.fn}) job={job["name"]}')
    except Hang: part.inconc(f'executor hang job={job["name"]}')
    except AssertionError as e: part.inconc(f'setup failed job={job["name"]}: {e!r}')
    if w is not None:
        for cat, loc in w.x.ubsan_reports()[:20]: part.observe('side:ubsan ' + loc, cat)
        try: w.close()
        except Exception: pass
    shutil.rmtree(d, ignore_errors=True)
    return part

def run(ctx):
    ctx.rule = ('(1) per key kind (AES16/32, DES, DES2, DES3, generic 16/64, six HMAC key types, RSA/DSA/DH/EC/Ed25519/X25519 private) x origin (created, generated then flipped, unwrapped, derived, copied with flag '
                'template, copy of a protected key, copy-of-copy) x (SENSITIVE,EXTRACTABLE) in {(1,1),(0,0),(1,0)} x every secret attribute x template shape {alone, mixed with public attributes at position '
                '0/1/2, named twice} x buffer {NULL,0,len-1,len,len+64}; (2) every reply byte of every later call scanned for >= 8 consecutive bytes of any protected value; (2b) every one-way flag in its protected state x raw CK_BBOOL byte {0x00,0x01,0x02,0x80,0xFF} x {set, copy}, judged by EFFECT (flag still reads protected, reveal still refused with untouched buffer, wrap under an untrusted key still refused); (2c) wrap guards: wrapping key {AES, DES3, RSA public} x {user-made untrusted, SO-made trusted} x every wrap mechanism tried x wrapped key (6 secret, 5 private kinds; token and session) x state {unextractable, +sensitive, WRAP_WITH_TRUSTED, +sensitive, +unextractable}, non-trivial when the readable key of the kind wraps under that key and mechanism; a forbidden wrap is followed by recovery of the value with the driver\'s own unwrapping key; (3) seeded attack sequences '
                '(wrap under untrusted/trusted/RSA keys, set/copy templates clearing a protection, CONCATENATE_* derivations with the protected key as base or as other key, reads).  one evaluation = one '
                'C_GetAttributeValue cell or one attack step; distinct = (kind, origin, flags, attribute, shape, buffer) / (step kind, mechanism, target state); non-trivial = the readable control instance of '
                'the same (kind, origin) returned exactly the value the driver believes AND the instance is protected')
    ctx.need('asan'); p = ctx.paths['asan']; jobs = []
    backends = ctx.q(('file',), ('file', 'db'))
    origins_q = ('created', 'generated', 'copied', 'copy-of-copy', 'unwrapped', 'derived'); origins_t = origins_q + ('copy-of-protected',)
    for be in backends:
        for kind in SECRET_KINDS + PRIV_KINDS:
            og = [o for o in ctx.q(origins_q, origins_t) if not (o == 'generated' and kind == 'RSApriv' and ctx.quick and False)]
            jobs.append(dict(paths=p, hdr=p['hdr'], scratch=ctx.scratch, what='table', kind=kind, origins=og, backend=be, name=f'{be}-{kind}', rseed=ctx.seed * 7 + len(jobs), all_stores=True))
    na = ctx.q(416, 3008); per = 13 if ctx.quick else 47
    for i in range(0, na, per):
        be = backends[(i // per) % len(backends)]
        jobs.append(dict(paths=p, hdr=p['hdr'], scratch=ctx.scratch, what='attack', backend=be, name=f'{be}-atk{i}', rseed=ctx.seed * 13 + i, seeds=[ctx.seed * 1000003 + i + j for j in range(per)], steps=ctx.q(10, 14)))
    for be in backends: jobs.append(dict(paths=p, hdr=p['hdr'], scratch=ctx.scratch, what='wrapguard', backend=be, name=f'{be}-wrapguard', rseed=ctx.seed * 17 + 5))
    jobs.sort(key=lambda j: 0 if j.get('kind') == 'RSApriv' else 1)
    for part in pmap(worker, jobs, ctx.nproc): ctx.merge(part)
    # another PROCESS protects a token key (SENSITIVE / not EXTRACTABLE / WRAP_WITH_TRUSTED) that this process has already read and wrapped (both back-ends): value and wrapping are refused here too
    for be in ('file', 'db'): ctx.extra.setdefault('two_process_cells', {})[be] = twoproc.stale_view(ctx, be, 'reveal')
    # ... and the same when the holder's reload of the key file fails on a file-system error (a process at its descriptor limit): the stale, readable copy must not be served
    ctx.extra['two_process_fault_cells'] = twoproc.stale_view_under_faults(ctx, 'file', 'reveal')
    ctx.assumptions += ['set/copy attempts are judged by their effect only: whether a non-canonical CK_BBOOL byte is rejected or normalised is the token\'s choice; "protection removed" (flag, reveal or wrap) is the violation',
                        'the leak scan sees verbatim substrings only (an encoded leak is outside what an output scan can see)',
                        'asymmetric key material is fixed (vlib/keys_fixed2.py): readable instances are read only before the value is declared protected; symmetric values are fresh per object',
                        'inheritance on derivation is demanded only for the CONCATENATE_* mechanisms (the statement names them); WRAP_WITH_TRUSTED is not inherited by derived keys (v2.40 does not say so)']
if __name__ == '__main__': main('C02', run, min_evaluations=3000, min_distinct=1000)
