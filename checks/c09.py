#!/usr/bin/env python3
"""C09 - a call that fails has no effect on objects.

Part 1 (histories, inputs): scenarios with a mixed object population (token/session x private/public, data, secret,
RSA/EC keys, certificate, a non-modifiable one) and three sessions (2 RW, 1 RO).  Calls that fail BY CONSTRUCTION
(template invalid at position k of n, wrong session state, bad mechanism parameters, bad wrapped keys, bad peer data)
of C_CreateObject / CopyObject / SetAttributeValue / DestroyObject / GenerateKey / GenerateKeyPair / UnwrapKey / DeriveKey
are bracketed by an API snapshot (every session: empty-template search + every readable attribute of every object) and
a directory snapshot (object files / db rows).  After an error return both must be unchanged and no new handle may work.

Part 2 (fault_sequences): for every FS operation k of a call on token objects, operation k fails (EIO / ENOSPC); if the
call reports an error, the in-memory state after disarming the fault and the persisted state seen by a NEW process
must equal the pre-call snapshot.  ("CKR_OK but not persisted" is C05's.)"""
import sys, os, random, shutil, time
sys.path.insert(0, os.path.join(os.path.dirname(os.path.abspath(__file__)), '..', 'vlib'))
from harness import main, Part, pmap, SAN_ENV
from p11client import Exec, Died, Hang, mkconf
from ck import CK
import snapshot as S, keys_c12 as K

SO_PIN = b'sopin123'; USER_PIN = b'userpin1'
RO_FLAGS = 4            # CKF_SERIAL_SESSION only
EIO, ENOSPC = 5, 28

def new_exec(job, d, backend, reuse=False):
    """start an executor and C_Initialize it.  The executor binary is shared with other checks and may be re-linked by a
    concurrent build at this very moment: a start-up failure is retried a few times (harness robustness, not a verdict)"""
    p = job['paths'][job['cfg']]; conf = os.path.join(d, 'softhsm2.conf')
    if not (reuse and os.path.exists(conf)): conf = mkconf(d, backend)
    for attempt in range(6):
        n = len([f for f in os.listdir(d) if f.startswith('stderr')]); x = None
        try:
            x = Exec(p['exe'], p['lib'], conf, job['ck'], env=dict(SAN_ENV), stderr=f'{d}/stderr{n}.log', trace=f'{d}/trace{n}.jsonl')
            r = x.call('C_Initialize', locking='os'); assert r['rv'] == 0, r
            return x
        except (OSError, Died) as e:
            if x is not None: x.kill()
            if attempt == 5 or (isinstance(e, Died) and e.rc not in (2, 126, 127, -9, -15)): raise
            time.sleep(1 + attempt)

def init_token(x):
    sl = x.call('C_GetSlotList', count=8)['slots'][-1]
    assert x.call('C_InitToken', slot=sl, pin=SO_PIN.hex(), label=b'c09'.hex())['rv'] == 0
    s = x.call('C_OpenSession', slot=sl)['h']
    assert x.call('C_Login', s=s, user=0, pin=SO_PIN.hex())['rv'] == 0
    assert x.call('C_InitPIN', s=s, pin=USER_PIN.hex())['rv'] == 0
    assert x.call('C_Logout', s=s)['rv'] == 0
    x.call('C_CloseSession', s=s)
    return sl

# =================================================================================== part 1: failing calls by construction
KIND = {(True, True): 'token-private', (True, False): 'token-public', (False, True): 'session-private', (False, False): 'session-public'}
FLAGS = {'secret': ['CKA_ENCRYPT', 'CKA_DECRYPT', 'CKA_SIGN', 'CKA_VERIFY', 'CKA_WRAP', 'CKA_UNWRAP', 'CKA_DERIVE'],
         'priv': ['CKA_SIGN', 'CKA_DECRYPT', 'CKA_UNWRAP', 'CKA_DERIVE'], 'pub': ['CKA_VERIFY', 'CKA_ENCRYPT', 'CKA_WRAP'], 'data': [], 'cert': []}

class Scen:
    def __init__(s, job, part):
        s.job = job; s.part = part; s.ck = ck = job['ck']; s.rnd = random.Random(job['seed']); s.be = job['backend']
        s.d = os.path.join(job['scratch'], 's%d' % job['seed']); shutil.rmtree(s.d, ignore_errors=True); os.makedirs(s.d)
        s.x = new_exec(job, s.d, s.be); s.root = s.d + '/tokens'; s.maxh = 0; s.n = 0
        s.slot = init_token(s.x)
        s.rw = s.c('C_OpenSession', slot=s.slot)['h']; s.rw2 = s.c('C_OpenSession', slot=s.slot)['h']; s.ro = s.c('C_OpenSession', slot=s.slot, flags=RO_FLAGS)['h']
        s.sessions = [s.rw, s.rw2, s.ro]; s.logged = False; s.objs = {}; s.sticky = False; s.login()
        s.populate()
    def c(self, fn, **kw):
        r = self.x.call(fn, **kw)
        if r.get('rv') == 0:
            for f in ('h', 'hpub', 'hpriv'):
                if f in r: self.maxh = max(self.maxh, r[f])
        for h in r.get('objs', []): self.maxh = max(self.maxh, h)
        return r
    def login(s): assert s.c('C_Login', s=s.rw, user=1, pin=USER_PIN.hex())['rv'] == 0; s.logged = True
    def T(s, pairs): return s.x.T(pairs)
    # ---- population
    def add(s, name, cls, pairs, tok, priv, sess=None, **info):
        t = dict(pairs); t.update({'CKA_TOKEN': tok, 'CKA_PRIVATE': priv, 'CKA_LABEL': name.encode()})
        r = s.c('C_CreateObject', s=sess or s.rw, tmpl=s.T(t))
        assert r['rv'] == 0, (name, r)
        s.objs[name] = dict(name=name, h=r['h'], cls=cls, tok=tok, priv=priv, sess=sess or s.rw, **info); return r['h']
    def populate(s):
        ck = s.ck
        for tok in (True, False):
            for priv in (True, False):
                tag = ('t' if tok else 's') + ('P' if priv else 'p')
                s.add('data-' + tag, 'data', {'CKA_CLASS': ck.CKO_DATA, 'CKA_APPLICATION': b'app-' + tag.encode(), 'CKA_VALUE': b'value of ' + tag.encode()}, tok, priv)
                s.add('aes-' + tag, 'secret', K.secret(ck, 'CKK_AES', K.AES128, CKA_ID=b'id-' + tag.encode()), tok, priv, kt='aes')
        s.add('aes-sens', 'secret', K.secret(ck, 'CKK_AES', K.AES256, CKA_SENSITIVE=True, CKA_EXTRACTABLE=False), True, True, kt='aes', sens=True)
        s.add('gen-sp', 'secret', K.secret(ck, 'CKK_GENERIC_SECRET', K.GENERIC64[:32]), False, False, kt='generic', sess=s.rw2)
        s.add('des3-tp', 'secret', K.secret(ck, 'CKK_DES3', K.DES3), True, False, kt='des3')
        s.add('rsa-priv', 'priv', K.rsa_priv(ck), True, True, kt='rsa')
        s.add('rsa-pub', 'pub', K.rsa_pub(ck), True, False, kt='rsa')
        s.add('ec-priv', 'priv', K.ec_priv(ck), False, False, kt='ec')
        s.add('ec-pub', 'pub', K.ec_pub(ck), False, False, kt='ec', sess=s.ro)
        s.add('cert-tp', 'cert', {'CKA_CLASS': ck.CKO_CERTIFICATE, 'CKA_CERTIFICATE_TYPE': ck.CKC_X_509, 'CKA_SUBJECT': b'\x30\x0b1\t0\x07\x06\x03U\x04\x03\x0c\x00', 'CKA_VALUE': b'\x30\x03\x02\x01\x01', 'CKA_ID': b'cert-id'}, True, False)
        s.add('fixed-tp', 'data', {'CKA_CLASS': ck.CKO_DATA, 'CKA_VALUE': b'immutable', 'CKA_MODIFIABLE': False, 'CKA_DESTROYABLE': False, 'CKA_COPYABLE': False}, True, False, fixed=True)
        s.add('fixed-sp', 'secret', K.secret(ck, 'CKK_AES', K.AES192, CKA_MODIFIABLE=False, CKA_DESTROYABLE=False, CKA_COPYABLE=False), False, False, kt='aes', fixed=True)
        # wrapped blobs for C_UnwrapKey (valid ones; they are damaged later)
        a = s.objs['aes-tp']['h']
        s.blobs = {}
        for m in ('CKM_AES_KEY_WRAP', 'CKM_AES_KEY_WRAP_PAD'):
            r = s.c('C_WrapKey', s=s.rw, mech=s.x.M(m), wkey=a, key=s.objs['aes-sp']['h'], buf=64)
            if r['rv'] == 0: s.blobs[m] = bytes.fromhex(r['out']['data'])
        r = s.c('C_WrapKey', s=s.rw, mech=s.x.M('CKM_AES_CBC_PAD', hex='00' * 16), wkey=a, key=s.objs['aes-sp']['h'], buf=64)
        if r['rv'] == 0: s.blobs['CKM_AES_CBC_PAD'] = bytes.fromhex(r['out']['data'])
        r = s.c('C_WrapKey', s=s.rw, mech=s.x.M('CKM_RSA_PKCS'), wkey=s.objs['rsa-pub']['h'], key=s.objs['aes-sp']['h'], buf=256)
        if r['rv'] == 0: s.blobs['CKM_RSA_PKCS'] = bytes.fromhex(r['out']['data'])
        r = s.c('C_WrapKey', s=s.rw, mech=s.x.M('CKM_AES_KEY_WRAP_PAD'), wkey=a, key=s.objs['rsa-priv']['h'], buf=2048)   # PKCS#8 of an RSA key
        if r['rv'] == 0: s.blobs['pkcs8-rsa'] = bytes.fromhex(r['out']['data'])
        assert 'CKM_AES_KEY_WRAP' in s.blobs and 'CKM_RSA_PKCS' in s.blobs, s.blobs.keys()
    # ---- state changes that are legitimate (successful calls): keep the histories varied
    def visible(s, o): return s.logged or not o['priv']
    def relogin_refresh(s):
        """after C_Login: private token objects get new handles; private session objects are gone"""
        for n, o in list(s.objs.items()):
            if not o['priv']: continue
            if not o['tok']: del s.objs[n]; continue
            r = s.c('C_FindObjectsInit', s=s.rw, tmpl=s.T({'CKA_LABEL': n.encode()})); f = s.c('C_FindObjects', s=s.rw, max=2); s.c('C_FindObjectsFinal', s=s.rw)
            if f.get('n') == 1: o['h'] = f['objs'][0]
            else: del s.objs[n]
    def legit_step(s):
        r = s.rnd.random(); ck = s.ck
        if r < 0.3:
            if s.logged: assert s.c('C_Logout', s=s.rnd.choice(s.sessions))['rv'] == 0; s.logged = False
            else: s.login(); s.relogin_refresh()
            return 'logout' if not s.logged else 'login'
        if r < 0.65:
            tok = s.rnd.random() < 0.5; priv = s.logged and s.rnd.random() < 0.5; s.n += 1
            sess = s.rnd.choice([s.rw, s.rw2] if tok else s.sessions)
            s.add('extra%d' % s.n, 'data', {'CKA_CLASS': ck.CKO_DATA, 'CKA_VALUE': b'x%d' % s.n}, tok, priv, sess=sess); return 'create'
        if r < 0.8:
            c = [o for o in s.objs.values() if o['name'].startswith('extra') and s.visible(o)]
            if c:
                o = s.rnd.choice(c); q = s.c('C_DestroyObject', s=s.rw, o=o['h'])
                if q['rv'] == 0: del s.objs[o['name']]
                return 'destroy'
        c = [o for o in s.objs.values() if s.visible(o) and not o.get('fixed') and o['cls'] != 'data']
        if c:
            o = s.rnd.choice(c); s.c('C_SetAttributeValue', s=s.rw, o=o['h'], tmpl=s.T({'CKA_ID': b'id%d' % s.rnd.randrange(1000)})); return 'set'
        return 'none'
    # ---- building blocks of failing calls
    def defect(s, cls, op):
        """-> (failure class, attribute entry) that makes a template invalid for an object of class `cls`"""
        ck = s.ck; r = s.rnd
        kinds = ['unknown-type', 'read-only', 'wrong-size', 'inconsistent']
        k = r.choice(kinds)
        if k == 'unknown-type': return k, {'t': r.choice([0x00012345, 0x7fffff01, ck.CKA_VENDOR_DEFINED + 0x77, ck.CKA_HW_FEATURE_TYPE, ck.CKA_OTP_FORMAT]), 'hex': r.choice(['', '01', '0000000000000000'])}
        if k == 'read-only':
            c = [('CKA_LOCAL', True), ('CKA_KEY_GEN_MECHANISM', ck.CKM_AES_KEY_GEN), ('CKA_ALWAYS_SENSITIVE', True), ('CKA_NEVER_EXTRACTABLE', False), ('CKA_LOCAL', False)]
            if op in ('set', 'copy'): c += [('CKA_CLASS', ck.CKO_DATA), ('CKA_KEY_TYPE', ck.CKK_DES3), ('CKA_VALUE_LEN', 16), ('CKA_CERTIFICATE_TYPE', ck.CKC_X_509), ('CKA_MODULUS', b'\x01' * 64), ('CKA_EC_PARAMS', K.P256_OID), ('CKA_CHECK_VALUE', b'\x00\x00\x00')]
            if op == 'set': c += [('CKA_TOKEN', True), ('CKA_TOKEN', False), ('CKA_PRIVATE', False), ('CKA_PRIVATE', True)]
            return k, s.x.A(*r.choice(c))
        if k == 'wrong-size':
            c = [('CKA_MODIFIABLE', '0101'), ('CKA_START_DATE', '3230323430'), ('CKA_COPYABLE', ''), ('CKA_DESTROYABLE', '010101')]
            if cls in ('secret', 'priv', 'pub'): c += [(f, '0100') for f in FLAGS[cls]] + [('CKA_END_DATE', '32303234303130313031')]
            if op in ('create', 'gen', 'unwrap', 'derive'): c += [('CKA_CLASS', '040000'), ('CKA_TOKEN', '0100'), ('CKA_PRIVATE', ''), ('CKA_KEY_TYPE', '1f000000')]
            if op in ('gen', 'derive'): c += [('CKA_VALUE_LEN', '10000000')]
            n, h = r.choice(c); return k, {'t': ck[n], 'hex': h}
        # inconsistent: an attribute that belongs to another class / one-way violations
        c = {'data': [('CKA_MODULUS', b'\x01' * 64), ('CKA_ENCRYPT', True), ('CKA_KEY_TYPE', ck.CKK_AES), ('CKA_SUBJECT', b'x')],
             'secret': [('CKA_MODULUS', b'\x01' * 64), ('CKA_APPLICATION', b'app'), ('CKA_EC_POINT', b'\x04\x01\x00'), ('CKA_CERTIFICATE_TYPE', ck.CKC_X_509)],
             'priv': [('CKA_APPLICATION', b'app'), ('CKA_VERIFY', True), ('CKA_WRAP', True), ('CKA_VALUE_LEN', 16)],
             'pub': [('CKA_APPLICATION', b'app'), ('CKA_SIGN', True), ('CKA_SENSITIVE', True), ('CKA_EXTRACTABLE', True)],
             'cert': [('CKA_ENCRYPT', True), ('CKA_APPLICATION', b'app'), ('CKA_KEY_TYPE', ck.CKK_RSA)]}[cls]
        return k, s.x.A(*r.choice(c))
    def inject(s, pairs, cls, op, allow_missing=()):
        """pairs: valid ordered template.  -> (template json, failure class, position class, prefix pairs)"""
        r = s.rnd; pairs = list(pairs)
        x = r.random()
        if x < 0.08 and op != 'set':
            t = s.T(pairs) + [s.x.A('CKA_LABEL', b'pad%d' % i) for i in range(r.choice([33, 40]) - len(pairs))]
            return t, 'too-many', 'k>0', pairs
        if x < 0.2 and allow_missing:
            drop = r.choice(list(allow_missing)); return s.T([p for p in pairs if p[0] != drop]), 'missing-mandatory', 'k=0', []
        fc, entry = s.defect(cls, op)
        k = r.randrange(len(pairs) + 1)
        if x > 0.85: k = len(pairs)      # favour the last position: the whole valid prefix is in front of it
        t = s.T(pairs[:k]) + [entry] + s.T(pairs[k:])
        return t, fc, ('k=0' if k == 0 else 'k>0'), pairs[:k]
    def changes(s, o, n):
        """n valid modifications of object o (ordered, distinct types)"""
        c = s.settable(o); s.rnd.shuffle(c); return c[:n]
    def settable(s, o, current=None):
        """EVERY attribute that C_SetAttributeValue / C_CopyObject accept after creation for the class of o (P11Attributes.h: ck8, and the
        one-way ck11 ones in their permitted direction), each with a value that differs from the present one where that can be known.
        (CKA_TRUSTED is ck10 only: P11Attribute::update answers CKR_ATTRIBUTE_READ_ONLY to C_SetAttributeValue, also for the SO.)"""
        r = s.rnd; cls = o['cls']; cur = current or {}
        def flag(a): return (a, (not cur[a]) if a in cur else r.random() < 0.5)
        c = [('CKA_LABEL', b'L%d' % r.randrange(10 ** 6))]
        if cls == 'cert': c += [('CKA_ID', b'I%d' % r.randrange(1000)), ('CKA_ISSUER', b'\x30\x02\x31' + bytes([r.randrange(100)])), ('CKA_SERIAL_NUMBER', b'\x02\x01' + bytes([r.randrange(100)]))]
        if cls in ('secret', 'priv', 'pub'):
            c += [('CKA_ID', b'I%d' % r.randrange(1000)), ('CKA_START_DATE', b'2024010%d' % r.randrange(1, 9)), ('CKA_END_DATE', b'2030120%d' % r.randrange(1, 9)), flag('CKA_DERIVE')]
        if cls == 'pub': c += [('CKA_SUBJECT', b'\x30\x03\x0c\x01' + bytes([65 + r.randrange(26)]))] + [flag(a) for a in ('CKA_ENCRYPT', 'CKA_VERIFY', 'CKA_VERIFY_RECOVER', 'CKA_WRAP')]
        if cls == 'priv':
            c += [('CKA_SUBJECT', b'\x30\x03\x0c\x01' + bytes([65 + r.randrange(26)])), ('CKA_PUBLIC_KEY_INFO', b'\x30\x03\x02\x01' + bytes([r.randrange(100)]))] + [flag(a) for a in ('CKA_DECRYPT', 'CKA_SIGN', 'CKA_SIGN_RECOVER', 'CKA_UNWRAP')]
        if cls == 'secret': c += [('CKA_CHECK_VALUE', b'')] + [flag(a) for a in ('CKA_ENCRYPT', 'CKA_DECRYPT', 'CKA_SIGN', 'CKA_VERIFY', 'CKA_WRAP', 'CKA_UNWRAP')]
        if cls in ('priv', 'secret'):      # one-way attributes, in the direction that is allowed
            c += [('CKA_SENSITIVE', True), ('CKA_EXTRACTABLE', False)]
            if not cur.get('CKA_WRAP_WITH_TRUSTED', False): c += [('CKA_WRAP_WITH_TRUSTED', True)]
        return c
    def set_sweep(s):
        """systematic part: for every object of the population and EVERY attribute that is settable after creation, that attribute alone (with a
        new value) in front of a rejected entry - C_SetAttributeValue on the object, and C_CopyObject for a few sources"""
        out = []; n = 0; bools = sorted({a for fl in FLAGS.values() for a in fl} | {'CKA_VERIFY_RECOVER', 'CKA_SIGN_RECOVER', 'CKA_WRAP_WITH_TRUSTED', 'CKA_SENSITIVE', 'CKA_EXTRACTABLE'})
        for o in list(s.objs.values()):
            if o.get('fixed') or not s.visible(o): continue
            rv, vals = s.x.getattrs(s.rw, o['h'], bools, cap=8); cur = {a: v != b'\x00' for a, v in vals.items() if v is not None and len(v) == 1}
            for a, v in s.settable(o, cur):
                n += 1; fc, bad = s.sure_defect(n)
                sess = (s.rw, s.rw2)[n % 2] if o['tok'] else s.sessions[n % 3]
                out.append(('C_SetAttributeValue', dict(s=sess, o=o['h'], tmpl=s.T([(a, v)]) + [bad]), dict(fclass=fc + ':after-' + a, pos='k>0', kind=KIND[(o['tok'], o['priv'])], target=o, prefix=[(a, v)])))
                if o['name'] in ('aes-tp', 'aes-sP', 'rsa-priv', 'rsa-pub', 'cert-tp'):
                    tok = bool(n % 2)
                    out.append(('C_CopyObject', dict(s=(s.rw, s.rw2)[n % 2], o=o['h'], tmpl=s.T([('CKA_TOKEN', tok), (a, v)]) + [bad]), dict(fclass=fc + ':after-' + a, pos='k>0', kind=KIND[(tok, o['priv'])])))
        return out
    def pick(s, pred=lambda o: True):
        c = [o for o in s.objs.values() if pred(o)]
        return s.rnd.choice(c) if c else None
    def new_kind(s, state_fail):
        """choose (session, tok, priv, failure class or None) for a call that creates an object"""
        r = s.rnd
        if state_fail:
            if not s.logged and r.random() < 0.5: return r.choice(s.sessions), r.random() < 0.5, True, 'not-logged-in'
            return s.ro, True, (s.logged and r.random() < 0.5), 'ro-session'
        tok = r.random() < 0.5; priv = s.logged and r.random() < 0.5
        return (r.choice([s.rw, s.rw2]) if tok else r.choice(s.sessions)), tok, priv, None
    CREATE_CLASSES = ['data', 'aes', 'generic', 'des3', 'rsa_pub', 'rsa_priv', 'ec_pub', 'ec_priv', 'cert']
    def class_template(s, name):
        ck = s.ck
        if name == 'data': return 'data', [('CKA_CLASS', ck.CKO_DATA), ('CKA_APPLICATION', b'new-app'), ('CKA_VALUE', b'new value')], ['CKA_CLASS']
        if name == 'aes': return 'secret', list(K.secret(ck, 'CKK_AES', K.AES192).items()), ['CKA_CLASS', 'CKA_KEY_TYPE', 'CKA_VALUE']
        if name == 'generic': return 'secret', list(K.secret(ck, 'CKK_GENERIC_SECRET', K.GENERIC64).items()), ['CKA_KEY_TYPE', 'CKA_VALUE']
        if name == 'des3': return 'secret', list(K.secret(ck, 'CKK_DES3', K.DES3).items()), ['CKA_VALUE']
        if name == 'rsa_pub': return 'pub', list(K.rsa_pub(ck).items()), ['CKA_MODULUS', 'CKA_PUBLIC_EXPONENT', 'CKA_KEY_TYPE']
        if name == 'rsa_priv': return 'priv', list(K.rsa_priv(ck).items()), ['CKA_MODULUS', 'CKA_PRIVATE_EXPONENT', 'CKA_KEY_TYPE']
        if name == 'ec_pub': return 'pub', list(K.ec_pub(ck).items()), ['CKA_EC_PARAMS', 'CKA_EC_POINT']
        if name == 'ec_priv': return 'priv', list(K.ec_priv(ck).items()), ['CKA_EC_PARAMS', 'CKA_VALUE']
        return 'cert', [('CKA_CLASS', ck.CKO_CERTIFICATE), ('CKA_CERTIFICATE_TYPE', ck.CKC_X_509), ('CKA_SUBJECT', b'\x30\x00'), ('CKA_VALUE', b'\x30\x03\x02\x01\x02')], ['CKA_SUBJECT', 'CKA_VALUE', 'CKA_CERTIFICATE_TYPE']
    # "sticky" attributes: perfectly legal in a template, but they make the policy-checking entry points (C_DestroyObject,
    # C_SetAttributeValue, C_CopyObject) refuse the object - a clean-up of a half-built object must not go through those
    STICKY = [[('CKA_DESTROYABLE', False)], [('CKA_MODIFIABLE', False)], [('CKA_COPYABLE', False)], [('CKA_DESTROYABLE', False), ('CKA_MODIFIABLE', False), ('CKA_COPYABLE', False)]]
    def placed(s, pairs, tok, priv, label, sticky=None):
        extra = [('CKA_TOKEN', tok), ('CKA_PRIVATE', priv), ('CKA_LABEL', label)]
        if sticky is None and s.rnd.random() < 0.3: sticky = s.rnd.choice(s.STICKY)
        if sticky: extra += list(sticky); s.sticky = True
        out = list(pairs)
        for e in extra: out.insert(s.rnd.randrange(len(out) + 1), e)
        return out
    PAIRS = ['rsa', 'ec', 'ed', 'dsa', 'dh']
    def pair_base(s, which):
        """-> (mechanism, public template without placement, mandatory domain attributes)"""
        if which == 'ec': return 'CKM_EC_KEY_PAIR_GEN', [('CKA_EC_PARAMS', K.P256_OID), ('CKA_VERIFY', True)], ['CKA_EC_PARAMS']
        if which == 'ed': return 'CKM_EC_EDWARDS_KEY_PAIR_GEN', [('CKA_EC_PARAMS', K.ED25519_OID), ('CKA_VERIFY', True)], ['CKA_EC_PARAMS']
        if which == 'dsa': return 'CKM_DSA_KEY_PAIR_GEN', [('CKA_PRIME', K.DSA['p']), ('CKA_SUBPRIME', K.DSA['q']), ('CKA_BASE', K.DSA['g']), ('CKA_VERIFY', True)], ['CKA_PRIME', 'CKA_SUBPRIME', 'CKA_BASE']
        if which == 'dh': return 'CKM_DH_PKCS_KEY_PAIR_GEN', [('CKA_PRIME', K.DH_P), ('CKA_BASE', K.DH_G), ('CKA_DERIVE', True)], ['CKA_PRIME', 'CKA_BASE']
        return 'CKM_RSA_PKCS_KEY_PAIR_GEN', [('CKA_MODULUS_BITS', 1024), ('CKA_PUBLIC_EXPONENT', b'\x01\x00\x01'), ('CKA_VERIFY', True)], ['CKA_MODULUS_BITS']
    def sure_defect(s, i):
        """an attribute entry that is rejected for every class and every creating operation"""
        return [('unknown-type', {'t': 0x00012345, 'hex': '01'}), ('read-only', s.x.A('CKA_LOCAL', True))][i % 2]
    def sweep(s):
        """systematic part: every creating call kind fails LATE (after the object / the first half of the pair exists) while the part
        built before the failure carries sticky attributes; token and session objects, private and public"""
        ck = s.ck; out = []; n = 0
        for tok in (True, False):
            for st in s.STICKY:
                n += 1; priv = bool(n % 2); kind = KIND[(tok, priv)]; sess = s.rw
                # key pairs: sticky public half + rejected private template (the public half is built first), and the other way round
                for which in s.PAIRS:
                    m, pubb, mand = s.pair_base(which); fc, bad = s.sure_defect(n)
                    prvb = [('CKA_SENSITIVE', False), ('CKA_EXTRACTABLE', True), ('CKA_ID', b'pair')] + ([('CKA_SIGN', True)] if which != 'dh' else [('CKA_DERIVE', True)])
                    pub = s.placed(pubb, tok, False, b'sw-pub', sticky=st); prv = s.placed(prvb, tok, priv, b'sw-priv', sticky=())
                    out.append(('C_GenerateKeyPair', dict(s=sess, mech=s.x.M(m), pub=s.T(pub), priv=s.T(prv) + [bad]), dict(kind=kind, sub=m, fclass=fc + ':priv', pos='k>0', sticky=True)))
                    pub = s.placed(pubb, tok, False, b'sw-pub', sticky=()); prv = s.placed(prvb, tok, priv, b'sw-priv', sticky=st)
                    out.append(('C_GenerateKeyPair', dict(s=sess, mech=s.x.M(m), pub=s.T(pub) + [bad], priv=s.T(prv)), dict(kind=kind, sub=m, fclass=fc + ':pub', pos='k>0', sticky=True)))
                fc, bad = s.sure_defect(n + 1)
                # C_CreateObject: rejected attribute at the end / mandatory attribute missing (found after the whole template was applied)
                for name in ('aes', 'rsa_pub', 'data'):
                    cls, pairs, mand = s.class_template(name); t = s.placed(pairs, tok, priv, b'sw-' + name.encode(), sticky=st)
                    out.append(('C_CreateObject', dict(s=sess, tmpl=s.T(t) + [bad]), dict(kind=kind, sub=name, fclass=fc, pos='k>0', sticky=True)))
                cls, pairs, mand = s.class_template('aes'); t = s.placed([p_ for p_ in pairs if p_[0] != 'CKA_VALUE'], tok, priv, b'sw-aes', sticky=st)
                out.append(('C_CreateObject', dict(s=sess, tmpl=s.T(t)), dict(kind=kind, sub='aes', fclass='missing-mandatory', pos='k=0', sticky=True)))
                # C_CopyObject
                src = s.objs['aes-tP' if priv else 'aes-tp']
                t = [('CKA_LABEL', b'sw-copy'), ('CKA_TOKEN', tok)] + list(st)
                out.append(('C_CopyObject', dict(s=sess, o=src['h'], tmpl=s.T(t) + [bad]), dict(kind=kind, fclass=fc, pos='k>0', sticky=True)))
                # C_GenerateKey
                for m, kt, vl in (s.GEN[0], s.GEN[2], s.GEN[4]):
                    t = s.placed([('CKA_SENSITIVE', False), ('CKA_EXTRACTABLE', True)] + ([('CKA_VALUE_LEN', vl)] if vl else []), tok, priv, b'sw-gen', sticky=st)
                    out.append(('C_GenerateKey', dict(s=sess, mech=s.x.M(m), tmpl=s.T(t) + [bad]), dict(kind=kind, sub=m, fclass=fc, pos='k>0', sticky=True)))
                # C_UnwrapKey: rejected attribute at the end, and a well-formed blob that is not a key of the requested type (fails after the object was created)
                base = [('CKA_CLASS', ck.CKO_SECRET_KEY), ('CKA_KEY_TYPE', ck.CKK_AES), ('CKA_SENSITIVE', False), ('CKA_EXTRACTABLE', True)]
                kw = dict(s=sess, mech=s.x.M('CKM_AES_KEY_WRAP'), ukey=s.objs['aes-tp']['h'], wrapped=s.blobs['CKM_AES_KEY_WRAP'].hex())
                out.append(('C_UnwrapKey', dict(kw, tmpl=s.T(s.placed(base, tok, priv, b'sw-unw', sticky=st)) + [bad]), dict(kind=kind, sub='CKM_AES_KEY_WRAP', fclass=fc, pos='k>0', sticky=True)))
                for kt in (ck.CKK_RSA, ck.CKK_EC):
                    b2 = [('CKA_CLASS', ck.CKO_PRIVATE_KEY), ('CKA_KEY_TYPE', kt), ('CKA_SENSITIVE', False), ('CKA_EXTRACTABLE', True)]
                    out.append(('C_UnwrapKey', dict(kw, tmpl=s.T(s.placed(b2, tok, priv, b'sw-unw', sticky=st))), dict(kind=kind, sub='CKM_AES_KEY_WRAP', fclass='wrapped:malformed', pos='-', sticky=True)))
                # C_DeriveKey: rejected attribute at the end, and a requested length longer than the derived secret (fails after the object was created)
                base = [('CKA_CLASS', ck.CKO_SECRET_KEY), ('CKA_KEY_TYPE', ck.CKK_GENERIC_SECRET), ('CKA_SENSITIVE', False), ('CKA_EXTRACTABLE', True)]
                for mech, bk, vl in ((s.x.M('CKM_ECDH1_DERIVE', ecdh1={'kdf': 1, 'public': K.EC['q'].hex()}), 'ec-priv', 64), (s.x.M('CKM_AES_ECB_ENCRYPT_DATA', kdstr=(b'0123456789abcdef' * 2).hex()), 'aes-tp', 200)):
                    kw = dict(s=sess, mech=mech, key=s.objs[bk]['h'])
                    out.append(('C_DeriveKey', dict(kw, tmpl=s.T(s.placed(base, tok, priv, b'sw-der', sticky=st)) + [bad]), dict(kind=kind, sub=bk, fclass=fc, pos='k>0', sticky=True)))
                    out.append(('C_DeriveKey', dict(kw, tmpl=s.T(s.placed(base + [('CKA_VALUE_LEN', vl)], tok, priv, b'sw-der', sticky=st))), dict(kind=kind, sub=bk, fclass='inconsistent', pos='k>0', sticky=True)))
        return out
    # ---- the failing calls.  Each returns (fn, kwargs, meta) ; meta: call, fclass, pos, kind(object kind), prefix, target
    def g_create(s):
        name = s.rnd.choice(s.CREATE_CLASSES); cls, pairs, mand = s.class_template(name)
        sess, tok, priv, sf = s.new_kind(s.rnd.random() < 0.15)
        pairs = s.placed(pairs, tok, priv, b'new-' + name.encode())
        if sf: return 'C_CreateObject', dict(s=sess, tmpl=s.T(pairs)), dict(fclass=sf, pos='-', kind=KIND[(tok, priv)])
        t, fc, pos, pre = s.inject(pairs, cls, 'create', mand)
        return 'C_CreateObject', dict(s=sess, tmpl=t), dict(fclass=fc, pos=pos, kind=KIND[(tok, priv)], sub=name)
    def g_set(s):
        r = s.rnd; x = r.random()
        if x < 0.12:     # wrong session state / not permitted
            o = s.pick(lambda o: o['tok'] and s.visible(o) and not o.get('fixed'))
            if o: return 'C_SetAttributeValue', dict(s=s.ro, o=o['h'], tmpl=s.T(s.changes(o, 2))), dict(fclass='ro-session', pos='-', kind=KIND[(o['tok'], o['priv'])], target=o)
        if x < 0.2:
            o = s.pick(lambda o: o.get('fixed'))
            return 'C_SetAttributeValue', dict(s=s.rw, o=o['h'], tmpl=s.T(s.changes(o, 2))), dict(fclass='not-modifiable', pos='-', kind=KIND[(o['tok'], o['priv'])], target=o)
        if x < 0.28 and not s.logged:
            o = s.pick(lambda o: o['priv'] and o['tok'])
            if o: return 'C_SetAttributeValue', dict(s=s.rw, o=o['h'], tmpl=s.T(s.changes(o, 2))), dict(fclass='not-logged-in', pos='-', kind=KIND[(o['tok'], o['priv'])], target=o)
        if x < 0.36:     # one-way attributes
            o = s.pick(lambda o: o.get('sens') and s.visible(o))
            if o:
                pre = s.changes(o, r.randrange(0, 3)); bad = r.choice([('CKA_SENSITIVE', False), ('CKA_EXTRACTABLE', True)])
                return 'C_SetAttributeValue', dict(s=s.rw, o=o['h'], tmpl=s.T(pre + [bad])), dict(fclass='one-way', pos='k>0' if pre else 'k=0', kind=KIND[(o['tok'], o['priv'])], target=o, prefix=pre)
        o = s.pick(lambda o: s.visible(o) and not o.get('fixed'))
        sess = r.choice([s.rw, s.rw2]) if o['tok'] else r.choice(s.sessions)
        t, fc, pos, pre = s.inject(s.changes(o, r.randrange(1, 5)), o['cls'], 'set')
        return 'C_SetAttributeValue', dict(s=sess, o=o['h'], tmpl=t), dict(fclass=fc, pos=pos, kind=KIND[(o['tok'], o['priv'])], target=o, prefix=pre)
    def g_copy(s):
        r = s.rnd; x = r.random()
        o = s.pick(lambda o: s.visible(o) and not o.get('fixed'))
        if x < 0.1:
            o = s.pick(lambda o: o.get('fixed')); return 'C_CopyObject', dict(s=s.rw, o=o['h'], tmpl=s.T([('CKA_LABEL', b'copy')])), dict(fclass='not-copyable', pos='-', kind=KIND[(o['tok'], o['priv'])])
        if x < 0.25:
            priv = o['priv']; return 'C_CopyObject', dict(s=s.ro, o=o['h'], tmpl=s.T([('CKA_LABEL', b'copy'), ('CKA_TOKEN', True)])), dict(fclass='ro-session', pos='-', kind=KIND[(True, priv)])
        if x < 0.35:
            o2 = s.pick(lambda o: o['priv'] and s.visible(o) and not o.get('fixed'))
            if o2: return 'C_CopyObject', dict(s=s.rw, o=o2['h'], tmpl=s.T([('CKA_LABEL', b'copy'), ('CKA_PRIVATE', False)])), dict(fclass='privacy-downgrade', pos='-', kind=KIND[(o2['tok'], False)])
        if x < 0.42 and not s.logged:
            return 'C_CopyObject', dict(s=s.rw, o=o['h'], tmpl=s.T([('CKA_LABEL', b'copy'), ('CKA_PRIVATE', True)])), dict(fclass='not-logged-in', pos='-', kind=KIND[(o['tok'], True)])
        tok = r.random() < 0.5; priv = o['priv'] or (s.logged and r.random() < 0.3)
        pairs = [('CKA_LABEL', b'copy-of-' + o['name'].encode()), ('CKA_TOKEN', tok), ('CKA_PRIVATE', priv)] + [c for c in s.changes(o, 2) if c[0] != 'CKA_LABEL']
        if r.random() < 0.3: pairs += list(r.choice(s.STICKY)); s.sticky = True
        r.shuffle(pairs)
        t, fc, pos, pre = s.inject(pairs, o['cls'], 'copy')
        return 'C_CopyObject', dict(s=r.choice([s.rw, s.rw2]), o=o['h'], tmpl=t), dict(fclass=fc, pos=pos, kind=KIND[(tok, priv)])
    def g_destroy(s):
        r = s.rnd; x = r.random()
        if x < 0.35:
            o = s.pick(lambda o: o['tok'] and s.visible(o))
            return 'C_DestroyObject', dict(s=s.ro, o=o['h']), dict(fclass='ro-session', pos='-', kind=KIND[(o['tok'], o['priv'])], target=o)
        if x < 0.65:
            o = s.pick(lambda o: o.get('fixed')); return 'C_DestroyObject', dict(s=r.choice([s.rw, s.rw2]), o=o['h']), dict(fclass='not-destroyable', pos='-', kind=KIND[(o['tok'], o['priv'])], target=o)
        if x < 0.85 and not s.logged:
            o = s.pick(lambda o: o['priv'] and o['tok'])
            if o: return 'C_DestroyObject', dict(s=s.rw, o=o['h']), dict(fclass='not-logged-in', pos='-', kind=KIND[(o['tok'], o['priv'])], target=o)
        return 'C_DestroyObject', dict(s=s.rw, o=r.choice([0, s.maxh + 50, s.rw])), dict(fclass='bad-handle', pos='-', kind='none')
    GEN = [('CKM_AES_KEY_GEN', 'CKK_AES', 16), ('CKM_AES_KEY_GEN', 'CKK_AES', 32), ('CKM_DES3_KEY_GEN', 'CKK_DES3', None), ('CKM_DES2_KEY_GEN', 'CKK_DES2', None), ('CKM_GENERIC_SECRET_KEY_GEN', 'CKK_GENERIC_SECRET', 20)]
    def g_generate(s):
        r = s.rnd; ck = s.ck; m, kt, vl = r.choice(s.GEN)
        sess, tok, priv, sf = s.new_kind(r.random() < 0.15)
        pairs = [('CKA_SENSITIVE', False), ('CKA_EXTRACTABLE', True), ('CKA_ENCRYPT', True), ('CKA_ID', b'gen')] + ([('CKA_VALUE_LEN', vl)] if vl else [])
        r.shuffle(pairs); pairs = s.placed(pairs, tok, priv, b'new-gen')
        meta = dict(kind=KIND[(tok, priv)], sub=m)
        if sf: return 'C_GenerateKey', dict(s=sess, mech=s.x.M(m), tmpl=s.T(pairs)), dict(meta, fclass=sf, pos='-')
        x = r.random()
        if x < 0.12: return 'C_GenerateKey', dict(s=sess, mech=s.x.M(r.choice(['CKM_AES_CBC', 'CKM_SHA256', 'CKM_RSA_PKCS_KEY_PAIR_GEN', 'CKM_AES_KEY_WRAP'])), tmpl=s.T(pairs)), dict(meta, fclass='bad-mechanism', pos='-')
        if x < 0.3 and vl:
            bad = r.choice([0, 1, 15, 17, 33, 1 << 33] if kt == 'CKK_AES' else [0, 1 << 33, 1 << 62])
            return 'C_GenerateKey', dict(s=sess, mech=s.x.M(m), tmpl=s.T([(a, (bad if a == 'CKA_VALUE_LEN' else b)) for a, b in pairs])), dict(meta, fclass='inconsistent', pos='k>0')
        if x < 0.4:
            bad = r.choice([('CKA_KEY_TYPE', ck.CKK_RSA if kt != 'CKK_RSA' else ck.CKK_AES), ('CKA_CLASS', ck.CKO_DATA), ('CKA_CLASS', ck.CKO_PRIVATE_KEY), ('CKA_KEY_TYPE', ck.CKK_DES3 if kt == 'CKK_AES' else ck.CKK_AES), ('CKA_CHECK_VALUE', b'\x01\x02\x03')])
            k = r.randrange(len(pairs) + 1); return 'C_GenerateKey', dict(s=sess, mech=s.x.M(m), tmpl=s.T(pairs[:k] + [bad] + pairs[k:])), dict(meta, fclass='inconsistent', pos='k>0' if k else 'k=0')
        t, fc, pos, pre = s.inject(pairs, 'secret', 'gen', ['CKA_VALUE_LEN'] if vl else ())
        return 'C_GenerateKey', dict(s=sess, mech=s.x.M(m), tmpl=t), dict(meta, fclass=fc, pos=pos)
    def g_genpair(s):
        r = s.rnd; ck = s.ck
        sess, tok, priv, sf = s.new_kind(r.random() < 0.15)
        which = r.choice(['ec', 'ec', 'ed', 'dsa', 'dh', 'rsa'])
        m, pub, mand = s.pair_base(which)
        ptok = tok if r.random() < 0.7 else not tok
        if ptok and sess == s.ro and not sf: ptok = False
        pub = s.placed(pub, ptok, False, b'new-pub'); prv = s.placed([('CKA_SIGN', True) if which != 'dh' else ('CKA_DERIVE', True), ('CKA_SENSITIVE', False), ('CKA_EXTRACTABLE', True), ('CKA_ID', b'pair')], tok, priv, b'new-priv')
        meta = dict(kind=KIND[(tok, priv)], sub=m)
        if sf: return 'C_GenerateKeyPair', dict(s=sess, mech=s.x.M(m), pub=s.T(pub), priv=s.T(prv)), dict(meta, fclass=sf, pos='-')
        x = r.random()
        if x < 0.15 and which in ('ec', 'ed'):
            bad = r.choice([b'', b'\x06\x03\x2a\x03\x04', b'\x06\x08\x2a\x86\x48\xce\x3d\x03\x01', b'\xff' * 10, b'\x13\x03abc'])
            return 'C_GenerateKeyPair', dict(s=sess, mech=s.x.M(m), pub=s.T([(a, bad if a == 'CKA_EC_PARAMS' else b) for a, b in pub]), priv=s.T(prv)), dict(meta, fclass='bad-domain-params', pos='k>0')
        if x < 0.22 and which == 'rsa':
            bad = r.choice([('CKA_MODULUS_BITS', 64), ('CKA_MODULUS_BITS', 1 << 20), ('CKA_PUBLIC_EXPONENT', b'\x04'), ('CKA_PUBLIC_EXPONENT', b'\x01')])
            return 'C_GenerateKeyPair', dict(s=sess, mech=s.x.M(m), pub=s.T([(bad if a == bad[0] else (a, b)) for a, b in pub]), priv=s.T(prv)), dict(meta, fclass='bad-domain-params', pos='k>0')
        if x < 0.6:
            t, fc, pos, pre = s.inject(prv, 'priv', 'gen')
            return 'C_GenerateKeyPair', dict(s=sess, mech=s.x.M(m), pub=s.T(pub), priv=t), dict(meta, fclass=fc + ':priv', pos=pos)
        t, fc, pos, pre = s.inject(pub, 'pub', 'gen', mand)
        return 'C_GenerateKeyPair', dict(s=sess, mech=s.x.M(m), pub=t, priv=s.T(prv)), dict(meta, fclass=fc + ':pub', pos=pos)
    def g_unwrap(s):
        r = s.rnd; ck = s.ck
        sess, tok, priv, sf = s.new_kind(r.random() < 0.12)
        cands = ['CKM_AES_KEY_WRAP', 'CKM_AES_KEY_WRAP_PAD', 'CKM_AES_CBC_PAD'] + (['CKM_RSA_PKCS'] if s.logged else [])
        m = r.choice([c for c in cands if c in s.blobs]); blob = s.blobs[m]
        uk = s.objs['rsa-priv'] if m == 'CKM_RSA_PKCS' else s.objs['aes-tp']
        mech = s.x.M(m, hex='00' * 16) if m == 'CKM_AES_CBC_PAD' else s.x.M(m)
        pairs = [('CKA_CLASS', ck.CKO_SECRET_KEY), ('CKA_KEY_TYPE', ck.CKK_AES), ('CKA_SENSITIVE', False), ('CKA_EXTRACTABLE', True), ('CKA_DECRYPT', True)]
        r.shuffle(pairs); pairs = s.placed(pairs, tok, priv, b'new-unwrapped')
        meta = dict(kind=KIND[(tok, priv)], sub=m); kw = dict(s=sess, mech=mech, ukey=uk['h'], wrapped=blob.hex(), tmpl=s.T(pairs))
        if sf: return 'C_UnwrapKey', kw, dict(meta, fclass=sf, pos='-')
        x = r.random()
        if x < 0.16:
            b = bytearray(blob); i = r.randrange(len(b)); b[i] ^= 1 << r.randrange(8)
            return 'C_UnwrapKey', dict(kw, wrapped=bytes(b).hex()), dict(meta, fclass='wrapped:bit-flipped', pos='-')
        if x < 0.3:
            cut = r.choice([1, 7, 8, 16, len(blob) - 1, len(blob) - 8]); b = blob[:max(1, len(blob) - cut)]
            return 'C_UnwrapKey', dict(kw, wrapped=b.hex()), dict(meta, fclass='wrapped:truncated', pos='-')
        if x < 0.4:
            b = bytes(r.randrange(256) for _ in range(r.choice([8, 16, 24, 40, 128, 129])))
            return 'C_UnwrapKey', dict(kw, wrapped=b.hex()), dict(meta, fclass='wrapped:garbage', pos='-')
        if x < 0.55:
            # well-formed blob whose content does not fit the template: a 16-byte secret as an RSA/EC private key (PKCS#8 expected),
            # or a PKCS#8 RSA key as an EC key -> the failure comes after the object was created
            kt = r.choice([ck.CKK_RSA, ck.CKK_EC, ck.CKK_DSA])
            if 'pkcs8-rsa' in s.blobs and r.random() < 0.4 and s.logged: kw2 = dict(kw, mech=s.x.M('CKM_AES_KEY_WRAP_PAD'), ukey=s.objs['aes-tp']['h'], wrapped=s.blobs['pkcs8-rsa'].hex()); kt = r.choice([ck.CKK_EC, ck.CKK_DSA])
            else: kw2 = kw
            p2 = [(a, (ck.CKO_PRIVATE_KEY if a == 'CKA_CLASS' else kt if a == 'CKA_KEY_TYPE' else b)) for a, b in pairs if a != 'CKA_DECRYPT']
            return 'C_UnwrapKey', dict(kw2, tmpl=s.T(p2)), dict(meta, fclass='wrapped:malformed', pos='-')
        if x < 0.68:
            bad = {'CKM_AES_KEY_WRAP': [s.x.M(m, hex='a6' * 8), s.x.M(m, hex='00')], 'CKM_AES_KEY_WRAP_PAD': [s.x.M(m, hex='a6' * 4)],
                   'CKM_AES_CBC_PAD': [s.x.M(m), s.x.M(m, hex='00' * 8), s.x.M(m, hex='00' * 15), s.x.M(m, hex='00' * 17)], 'CKM_RSA_PKCS': [None]}[m]
            b = r.choice(bad)
            if b is None: b = s.x.M('CKM_RSA_PKCS_OAEP', oaep={'hash': ck.CKM_SHA256, 'mgf': ck.CKG_MGF1_SHA1, 'source': 1})
            return 'C_UnwrapKey', dict(kw, mech=b), dict(meta, fclass='bad-mech-param', pos='-')
        if x < 0.76:
            o = s.pick(lambda o: s.visible(o) and o['cls'] in ('data', 'pub', 'cert'))
            return 'C_UnwrapKey', dict(kw, ukey=r.choice([o['h'], 0, s.maxh + 40])), dict(meta, fclass='bad-unwrapping-key', pos='-')
        t, fc, pos, pre = s.inject(pairs, 'secret', 'unwrap', ['CKA_CLASS', 'CKA_KEY_TYPE'])
        return 'C_UnwrapKey', dict(kw, tmpl=t), dict(meta, fclass=fc, pos=pos)
    def g_derive(s):
        r = s.rnd; ck = s.ck
        sess, tok, priv, sf = s.new_kind(r.random() < 0.12)
        pairs = [('CKA_CLASS', ck.CKO_SECRET_KEY), ('CKA_KEY_TYPE', ck.CKK_GENERIC_SECRET), ('CKA_SENSITIVE', False), ('CKA_EXTRACTABLE', True)]
        r.shuffle(pairs); pairs = s.placed(pairs, tok, priv, b'new-derived')
        which = r.choice(['ecdh', 'ecdh', 'aes-ecb', 'aes-cbc', 'concat'])
        good_pub = K.EC['q']
        if which == 'ecdh': base = s.objs['ec-priv']; mech = s.x.M('CKM_ECDH1_DERIVE', ecdh1={'kdf': 1, 'public': good_pub.hex()})
        elif which == 'aes-ecb': base = s.objs['aes-tp']; mech = s.x.M('CKM_AES_ECB_ENCRYPT_DATA', kdstr=(b'0123456789abcdef' * 2).hex())
        elif which == 'aes-cbc': base = s.objs['aes-tp']; mech = s.x.M('CKM_AES_CBC_ENCRYPT_DATA', cbcdata={'iv': '00' * 16, 'data': (b'0123456789abcdef' * 2).hex()})
        else: base = s.objs['gen-sp']; mech = s.x.M('CKM_CONCATENATE_BASE_AND_DATA', kdstr=b'more-data'.hex())
        meta = dict(kind=KIND[(tok, priv)], sub=which); kw = dict(s=sess, mech=mech, key=base['h'], tmpl=s.T(pairs))
        if sf: return 'C_DeriveKey', kw, dict(meta, fclass=sf, pos='-')
        x = r.random()
        if x < 0.35:
            if which == 'ecdh':
                bad = r.choice([{'kdf': 1, 'public': good_pub[:-1].hex()}, {'kdf': 1, 'public': (good_pub[:-1] + bytes([good_pub[-1] ^ 1])).hex()}, {'kdf': 1, 'public': '04' + '00' * 64},
                                {'kdf': 1, 'public': ''}, {'kdf': 2, 'public': good_pub.hex()}, {'kdf': 1, 'public': good_pub.hex(), 'shared': 'aabb'}, {'kdf': 1, 'public': 'ff' * 65}, {'kdf': 1, 'public': (b'\x04\x40' + good_pub[1:]).hex()}])
                mech = s.x.M('CKM_ECDH1_DERIVE', ecdh1=bad); fc = 'bad-peer'
            elif which == 'aes-ecb': mech = s.x.M('CKM_AES_ECB_ENCRYPT_DATA', kdstr=r.choice(['', '00' * 15, '00' * 17])); fc = 'bad-mech-param'
            elif which == 'aes-cbc': mech = r.choice([s.x.M('CKM_AES_CBC_ENCRYPT_DATA', cbcdata={'iv': '00' * 16, 'data': '00' * 17}), s.x.M('CKM_AES_CBC_ENCRYPT_DATA', hex='00' * 8), s.x.M('CKM_AES_CBC_ENCRYPT_DATA')]); fc = 'bad-mech-param'
            else: mech = r.choice([s.x.M('CKM_CONCATENATE_BASE_AND_DATA'), s.x.M('CKM_CONCATENATE_BASE_AND_KEY', hkey=s.maxh + 60), s.x.M('CKM_CONCATENATE_BASE_AND_DATA', hex='00')]); fc = 'bad-mech-param'
            return 'C_DeriveKey', dict(kw, mech=mech), dict(meta, fclass=fc, pos='-')
        if x < 0.5:      # requested length longer than the derived secret: fails after the object was created
            p2 = pairs + [('CKA_VALUE_LEN', r.choice([33, 64, 200]) if which != 'concat' else 1 << 20)]
            return 'C_DeriveKey', dict(kw, tmpl=s.T(p2)), dict(meta, fclass='inconsistent', pos='k>0')
        if x < 0.6:
            o = s.pick(lambda o: s.visible(o) and o['cls'] in ('data', 'cert', 'pub'))
            return 'C_DeriveKey', dict(kw, key=r.choice([o['h'], 0, s.objs['rsa-pub']['h']])), dict(meta, fclass='bad-base-key', pos='-')
        t, fc, pos, pre = s.inject(pairs, 'secret', 'derive', ['CKA_CLASS'] if which != 'concat' else ())
        return 'C_DeriveKey', dict(kw, tmpl=t), dict(meta, fclass=fc, pos=pos)
    GENS = [('g_create', 5), ('g_set', 5), ('g_copy', 3), ('g_destroy', 1.5), ('g_generate', 3), ('g_genpair', 2), ('g_unwrap', 3.5), ('g_derive', 2.5)]
    # ---- snapshots and the oracle
    def snap(s):
        a = S.api_snapshot(s.x, s.sessions)
        for (_, h) in a['objs']: s.maxh = max(s.maxh, h)
        return a, S.dir_snapshot(s.root, s.be)
    def judge(s, fn, kw, meta, r, before, after, probes):
        part = s.part; ad = S.api_diff(before[0], after[0]); dd = S.dir_diff(before[1], after[1], s.be)
        if not ad and not dd and not probes: return True
        tokpart = meta['kind'].split('-')[0] + '-object' if meta['kind'] != 'none' else 'no-object'
        if 'target' in meta: tokpart = ('token' if meta['target']['tok'] else 'session') + '-object'
        icls = (('invalid@' + meta['pos']) if meta['pos'] in ('k=0', 'k>0') else meta['fclass']) + (',sticky' if meta.get('sticky') else '')
        kinds = {d[0] for d in ad}
        if 'added' in kinds: out = 'object-added'
        elif 'removed' in kinds: out = 'object-removed'
        elif 'search-failed' in kinds: out = 'search-failed'
        elif 'changed' in kinds:
            out = 'attribute-changed'
            pre = {a: s.x.A(a, v) for a, v in meta.get('prefix', [])}
            def applied(ch):
                for a, (p, q) in ch.items():
                    if a == '(rv)': continue
                    if q is None and ('CKA_SENSITIVE' in pre or 'CKA_EXTRACTABLE' in pre): continue   # a value that became unreadable because the prefix made the key sensitive / unextractable
                    if a not in pre: return False
                return True
            if fn == 'C_SetAttributeValue' and pre and all(applied(d[3]) for d in ad if d[0] == 'changed'): out = 'prefix-applied'
        elif dd: out = 'directory-' + sorted({d[0] for d in dd})[0]
        else: out = 'new-handle-works'
        wit = {'seed': s.job['seed'], 'backend': s.be, 'call': fn, 'args': kw, 'rv': r['rvname'], 'failure_class': meta['fclass'], 'position': meta['pos'], 'object_kind': meta['kind'],
               'api_diff': [(d[0], d[1], d[2], d[3]) for d in ad[:6]], 'dir_diff': dd[:6], 'working_new_handles': probes, 'trace': s.x.trace_path}
        part.violation(f'{fn}|{tokpart},{icls}|{out}', f'{fn} returned {r["rvname"]} ({meta["fclass"]}, {meta["kind"]}) but the object population changed: {out}', wit)
        return False
    def run(s, ncalls):
        part = s.part; names = [g for g, _ in s.GENS]; wts = [w for _, w in s.GENS]
        before = s.snap(); queue = s.sweep() if s.job.get('sweep') == 'sticky' else s.set_sweep() if s.job.get('sweep') == 'set' else []
        part.count('%s_sweep_calls' % (s.job.get('sweep') or 'no'), len(queue))
        for i in range(ncalls + len(queue)):
            s.sticky = False
            if queue: built = queue.pop(0)
            else:
                if s.rnd.random() < 0.07:
                    s.legit_step(); before = s.snap()
                g = s.rnd.choices(names, wts)[0]
                built = getattr(s, g)()
            if built is None: continue
            fn, kw, meta = built
            if s.sticky: meta['sticky'] = True
            # the caller's output variable may still hold the handle of a live object (PKCS#11 does not ask the application to clear it): half of the creating calls start that way
            if fn in ('C_CreateObject', 'C_CopyObject', 'C_GenerateKey', 'C_GenerateKeyPair', 'C_UnwrapKey', 'C_DeriveKey') and before[0]['objs'] and (i % 2 == 0):
                hs_live = sorted({h for (_, h) in before[0]['objs']}); kw = dict(kw, preset=s.rnd.choice(hs_live), preset2=s.rnd.choice(hs_live)); meta['preset'] = True; part.count('creating_calls_with_live_handle_in_output_variable')
            s.x.call('fs', mode='count', root=s.root)
            r = s.c(fn, **kw)
            fsn = s.x.call('fs', mode='status')['nops']; s.x.call('fs', mode='off')
            if r['rv'] == 0:
                # not a failing call after all: the state legitimately changed; drop anything it created and go on
                part.observe('call built to fail returned CKR_OK (not evaluated)', {'call': fn, 'class': meta['fclass'], 'sub': meta.get('sub')}); part.count('built_to_fail_but_ok')
                for f in ('h', 'hpub', 'hpriv'):
                    if r.get(f): s.c('C_DestroyObject', s=s.rw, o=r[f])
                if fn == 'C_DestroyObject' and 'target' in meta: s.objs.pop(meta['target']['name'], None)
                before = s.snap(); continue
            # no new handle may work: the returned one (if any) and the next numbers of the handle counter
            probes = []
            for h in sorted({r.get('h', 0), r.get('hpub', 0), r.get('hpriv', 0), s.maxh + 1, s.maxh + 2, s.maxh + 3} - {0}):
                if any(hh == h for (_, hh) in before[0]['objs']): continue     # an object that existed before (cannot be a new handle)
                q = s.x.call('C_GetAttributeValue', s=s.rw, o=h, tmpl=[{'t': s.ck.CKA_CLASS, 'buf': 8}])
                if q['rv'] == 0: probes.append(h)
            after = s.snap()
            ok = s.judge(fn, kw, meta, r, before, after, probes)
            nontrivial = len(before[0]['objs']) > 0
            if meta.get('sticky'): part.count('failing_calls_with_sticky_attributes')
            part.case((fn, meta['fclass'] + ('+sticky' if meta.get('sticky') else ''), meta['pos'], meta['kind'], s.be), nontrivial=nontrivial,
                      sample={'call': fn, 'failure_class': meta['fclass'] + ('+sticky' if meta.get('sticky') else ''), 'position': meta['pos'], 'object_kind': meta['kind'], 'backend': s.be, 'rv': r['rvname'], 'fs_ops_before_failing': fsn,
                              'objects_visible': sorted({h for (_, h) in before[0]['objs']}).__len__(), 'unchanged': ok})
            part.count('failing_calls'); part.count('failing_calls_' + s.be); part.count('rv_' + r['rvname'])
            if fsn: part.count('failing_calls_that_touched_the_store_first')
            before = after
    def close(s):
        for cat, loc in s.x.ubsan_reports()[:20]: s.part.observe('side:ubsan ' + loc, cat)
        s.x.close()

def scenario(job):
    part = Part(); job['ck'] = CK(job['hdr']); sc = None
    try:
        sc = Scen(job, part); sc.run(job['ncalls'])
    except Died as e:
        part.observe('side:C17 library terminated the host', {'kind': e.kind(), 'fn': e.fn, 'where': e.where(), 'seed': job['seed']}); part.inconc(f'executor died ({e.kind()} in {e.fn}) seed={job["seed"]}')
    except Hang: part.inconc(f'executor hang seed={job["seed"]}')
    except AssertionError as e: part.inconc(f'setup failed seed={job["seed"]}: {e!r}'[:400])
    if sc is not None:
        try: sc.close()
        except Exception: pass
        shutil.rmtree(sc.d, ignore_errors=True)
    return part

# =================================================================================== part 2: FS faults
FAULT_CALLS = ['C_SetAttributeValue', 'C_DestroyObject', 'C_CopyObject', 'C_CreateObject', 'C_GenerateKey', 'C_UnwrapKey']

class Faults:
    def __init__(s, job, part):
        s.job = job; s.part = part; s.ck = job['ck']; s.be = job['backend']; s.priv = job['priv']; s.call = job['call']
        s.d = os.path.join(job['scratch'], 'f-%s-%s-%d-%d-%d' % (s.call, s.be, s.priv, job['errno'], job['chunk'])); shutil.rmtree(s.d, ignore_errors=True); os.makedirs(s.d)
        s.root = s.d + '/tokens'; s.gold = s.d + '/gold'
    def aes(s, x, label, priv):
        return x.T(K.secret(s.ck, 'CKK_AES', label.ljust(16, b'.'), CKA_TOKEN=True, CKA_PRIVATE=priv, CKA_LABEL=label, CKA_ID=b'id0'))
    def make_gold(s):
        x = new_exec(s.job, s.d, s.be); sl = init_token(x); h = x.call('C_OpenSession', slot=sl)['h']
        assert x.call('C_Login', s=h, user=1, pin=USER_PIN.hex())['rv'] == 0
        for lab, priv in ((b'A-pub', False), (b'B-priv', True)): assert x.call('C_CreateObject', s=h, tmpl=s.aes(x, lab, priv))['rv'] == 0
        assert x.call('C_CreateObject', s=h, tmpl=x.T({'CKA_CLASS': s.ck.CKO_DATA, 'CKA_TOKEN': True, 'CKA_PRIVATE': True, 'CKA_LABEL': b'D-priv', 'CKA_VALUE': b'secret data'}))['rv'] == 0
        a = x.findall(h, {'CKA_LABEL': b'A-pub'})[1][0]
        w = x.call('C_WrapKey', s=h, mech=x.M('CKM_AES_KEY_WRAP'), wkey=a, key=a, buf=64); assert w['rv'] == 0; s.wrapped = w['out']['data']
        x.call('C_Finalize'); x.close(); shutil.copytree(s.root, s.gold)
    def restore(s): shutil.rmtree(s.root, ignore_errors=True); shutil.copytree(s.gold, s.root)
    def start(s):
        x = new_exec(s.job, s.d, s.be, reuse=True)
        sl = x.call('C_GetSlotList', count=8)['slots'][0]
        a = x.call('C_OpenSession', slot=sl)['h']; b = x.call('C_OpenSession', slot=sl, flags=RO_FLAGS)['h']
        assert x.call('C_Login', s=a, user=1, pin=USER_PIN.hex())['rv'] == 0
        return x, a, b
    def target(s, x, h):
        lab = b'A-pub' if (s.call == 'C_UnwrapKey' or not s.priv) else b'B-priv'
        return x.findall(h, {'CKA_LABEL': lab})[1][0]
    def victim(s, x, h, t):
        ck = s.ck; c = s.call; P = s.priv
        if c == 'C_SetAttributeValue': return x.call(c, s=h, o=t, tmpl=x.T([('CKA_ID', b'NEWID'), ('CKA_LABEL', b'newlabel')]))
        if c == 'C_CreateObject': return x.call(c, s=h, tmpl=s.aes(x, b'C-new', P))
        if c == 'C_DestroyObject': return x.call(c, s=h, o=t)
        if c == 'C_CopyObject': return x.call(c, s=h, o=t, tmpl=x.T([('CKA_LABEL', b'D-copy')]))
        if c == 'C_GenerateKey': return x.call(c, s=h, mech=x.M('CKM_AES_KEY_GEN'), tmpl=x.T({'CKA_TOKEN': True, 'CKA_PRIVATE': P, 'CKA_VALUE_LEN': 16, 'CKA_LABEL': b'G-new', 'CKA_SENSITIVE': False, 'CKA_EXTRACTABLE': True}))
        if c == 'C_UnwrapKey': return x.call(c, s=h, mech=x.M('CKM_AES_KEY_WRAP'), ukey=t, wrapped=s.wrapped, tmpl=x.T({'CKA_CLASS': ck.CKO_SECRET_KEY, 'CKA_KEY_TYPE': ck.CKK_AES, 'CKA_TOKEN': True, 'CKA_PRIVATE': P, 'CKA_LABEL': b'U-new', 'CKA_SENSITIVE': False, 'CKA_EXTRACTABLE': True}))
        raise ValueError(c)
    def opkind(s, kind, path):
        b = os.path.basename(path)
        if s.be == 'db': return 'sqlite-io'       # SQLite's own journal/db I/O: the library only sees "a statement failed"; the raw operation is in the witness
        if b.startswith('token.'): f = b
        elif b.endswith('.object'): f = 'object'
        elif b.endswith('.lock'): f = 'lock'
        elif b == 'generation': f = 'generation'
        elif b.startswith('sqlite3.db'): f = 'db' + b[len('sqlite3.db'):]
        else: f = 'dir'
        return kind + '@' + f
    def run(s):
        part = s.part; job = s.job
        s.make_gold()
        # dry run: number the FS operations of the call
        s.restore(); x, a, b = s.start(); t = s.target(x, a)
        x.call('fs', mode='count', root=s.root); r0 = s.victim(x, a, t); tr = x.call('fs', mode='trace'); x.call('fs', mode='off'); x.close()
        N = tr['nops']; ops = {o[0]: (o[1], o[2]) for o in tr['trace']}
        if job['chunk'] == 0:
            part.count('fault_points_' + s.call + '_' + s.be, N)
            part.observe('fs operations of one call (dry run)', {'call': s.call, 'backend': s.be, 'private': s.priv, 'n': N, 'rv': r0['rvname'], 'kinds': sorted({s.opkind(*v) for v in ops.values()})})
        if r0['rv'] != 0 and job['chunk'] == 0: part.observe('dry run of the call already fails without a fault', {'call': s.call, 'backend': s.be, 'rv': r0['rvname']})
        for k in range(1 + job['chunk'], N + 1, job['nchunks']):
            s.restore(); x, a, b = s.start(); t = s.target(x, a)
            before = S.api_snapshot(x, [a, b]); dbefore = S.dir_snapshot(s.root, s.be)
            x.call('fs', mode='fail', root=s.root, k=k, errno=job['errno'])
            try: r = s.victim(x, a, t)
            except Died as e:
                part.observe('side:C17 library terminated the host under an FS fault', {'kind': e.kind(), 'fn': e.fn, 'where': e.where(), 'call': s.call, 'op': s.opkind(*ops.get(k, ('?', '?')))}); part.inconc(f'executor died under fault {s.call} k={k}'); continue
            inj = x.call('fs', mode='status')['injected']; x.call('fs', mode='off')
            op = s.opkind(*ops.get(k, ('?', '?')))
            part.count('faults_injected', 1 if inj else 0)
            if r['rv'] == 0:
                # reported success: whether it really persisted is C05's question
                part.count('faulted_calls_returning_ok_not_evaluated'); x.close(); continue
            try: after = S.api_snapshot(x, [a, b]); x.call('C_Finalize'); x.close()
            except Died as e:
                part.observe('side:C17 library terminated the host after an FS fault', {'kind': e.kind(), 'fn': e.fn, 'call': s.call, 'op': op}); part.inconc(f'executor died after fault {s.call} k={k}'); continue
            y, ya, yb = s.start(); after2 = S.api_snapshot(y, [ya, yb]); y.close(); dafter = S.dir_snapshot(s.root, s.be)
            md = S.api_diff(before, after)
            miss, extra = [], []
            for p, q in ((a, ya), (b, yb)):
                m_, e_ = S.canon_diff(S.canon(before, p), S.canon(after2, q)); miss += m_; extra += e_
            dd = S.dir_diff(dbefore, dafter, s.be)
            flags = []
            mk = {d[0] for d in md}
            # an object that vanished under its handle and is back, attribute for attribute, under a new one
            gone = sorted(repr(sorted(d[3].items())) for d in md if d[0] == 'removed'); back = sorted(repr(sorted(d[3].items())) for d in md if d[0] == 'added')
            if gone and gone == back: mk -= {'added', 'removed'}; flags.append('mem-handle-replaced')
            if 'added' in mk: flags.append('mem-object-added')
            if 'removed' in mk: flags.append('mem-object-lost')
            if 'changed' in mk: flags.append('mem-attribute-changed')
            if 'search-failed' in mk: flags.append('mem-search-failed')
            if miss and extra and len(miss) == len(extra) and not any(d[0] in ('file-added', 'file-removed') for d in dd): flags.append('disk-attribute-changed')
            else:
                if miss: flags.append('disk-object-lost')
                if extra: flags.append('disk-residual-object')
            if dd and not (miss or extra): flags.append('directory-' + sorted({d[0] for d in dd})[0])
            part.case((s.call, 'fs-fault:' + op, 'private' if s.priv else 'public', s.be, job['errno']), nontrivial=bool(inj),
                      sample={'call': s.call, 'fault': op, 'k': k, 'of': N, 'errno': job['errno'], 'backend': s.be, 'rv': r['rvname'], 'outcome': '+'.join(flags) or 'unchanged'})
            part.count('faulted_calls_returning_error')
            if flags:
                wit = {'call': s.call, 'backend': s.be, 'private': s.priv, 'k': k, 'of': N, 'op': ops.get(k), 'errno': job['errno'], 'rv': r['rvname'], 'memory_diff': [(d[0], d[3] if d[0] == 'changed' else (d[3] or {}).get('CKA_LABEL')) for d in md[:4]],
                       'after_restart_missing': [m.get('CKA_LABEL') for m in miss[:4]], 'after_restart_extra': [(e.get('CKA_LABEL'), e.get('(rv)')) for e in extra[:4]], 'dir_diff': dd[:4]}
                part.violation(f'{s.call}|fs-fault:{op}|{"+".join(flags)}', f'{s.call} failed ({r["rvname"]}) because FS operation {op} failed, but the state changed: {"+".join(flags)}', wit)

def faults(job):
    part = Part(); job['ck'] = CK(job['hdr']); f = None
    try:
        f = Faults(job, part); f.run()
    except Died as e:
        part.observe('side:C17 library terminated the host', {'kind': e.kind(), 'fn': e.fn, 'where': e.where()}); part.inconc(f'executor died ({e.kind()} in {e.fn}) in fault job {job["call"]}')
    except Hang: part.inconc(f'executor hang in fault job {job["call"]}')
    except AssertionError as e: part.inconc(f'fault job setup failed {job["call"]}: {e!r}'[:400])
    if f is not None: shutil.rmtree(f.d, ignore_errors=True)
    return part

def work(job): return scenario(job) if job['what'] == 'scenario' else faults(job)

def run(ctx):
    ctx.rule = ('one evaluation = one FAILING create/copy/set/destroy/generate/generate-pair/unwrap/derive call bracketed by an API snapshot (3 sessions: empty-template search + every readable '
                'attribute of every object) and a directory snapshot (object files / db rows), or one call failed by an injected FS fault compared in memory and after a restart in a new process; '
                'distinct = (call, failure class, position class, object kind, back-end) resp. (call, faulted FS operation kind, private?, back-end, errno); non-trivial = the call did fail and '
                'objects existed before (fault cases: the fault was really injected)')
    ctx.need('asan'); base = dict(paths=ctx.paths, hdr=ctx.paths['asan']['hdr'], cfg='asan', scratch=ctx.scratch)
    jobs = []
    per = 60; nfile = ctx.q(30, 330); ndb = ctx.q(8, 170)
    for i in range(nfile + ndb):
        # the first file scenarios and the first db scenario start with the systematic sticky-attribute sweep (then fewer random calls)
        # and the next ones with the settable-attribute sweep (each settable attribute alone in front of a rejected entry)
        a, b = ctx.q(2, 6), ctx.q(1, 3)
        sweep = 'sticky' if (i < a or nfile <= i < nfile + b) else 'set' if (i < 2 * a or nfile <= i < nfile + 2 * b) else None
        jobs.append(dict(base, what='scenario', seed=ctx.seed * 1000003 + i, backend='file' if i < nfile else 'db', ncalls=20 if sweep else per, sweep=sweep))
    # fault enumeration: every FS operation of every call kind (file; db in thorough), EIO (and ENOSPC in thorough)
    fj = []
    for be in ctx.q(('file',), ('file', 'db')):
        for errno in ctx.q((EIO,), (EIO, ENOSPC)):
            for call in FAULT_CALLS:
                big = call in ('C_CreateObject', 'C_GenerateKey', 'C_UnwrapKey')
                privs = (True, False)
                for priv in privs:
                    nch = (4 if big else 1) * (3 if be == 'db' else 1)
                    for c in range(nch): fj.append(dict(base, what='faults', call=call, backend=be, priv=priv, errno=errno, chunk=c, nchunks=nch))
    # long jobs first
    jobs = [j for j in jobs if j.get('sweep')] + fj + [j for j in jobs if not j.get('sweep')]
    for part in pmap(work, jobs, ctx.nproc): ctx.merge(part)
    ctx.assumptions += ['objects are identified by handle within one process and by their full attribute tuple across processes',
                        'directory snapshot: *.object files without the 8-byte generation counter (bytes, falling back to decoded attributes) / rows of object + attribute_* tables; generation files, lock files and the token object are excluded',
                        'a call built to fail that returns CKR_OK is not evaluated (logged as an observation)',
                        'FS faults: one failing operation per call (the k-th), errno EIO (quick) and ENOSPC (thorough); calls that return CKR_OK under a fault belong to C05']
if __name__ == '__main__': main('C09', run, level='fault_enumeration', min_evaluations=800, min_distinct=60)
