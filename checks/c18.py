#!/usr/bin/env python3
"""C18 - thread safety with locking enabled (file back-end).
(A) multi-threaded stress in the executor's threads mode on the ASan build: behavioural oracles
    (no crash / deadlock, every call that must succeed does, thread-local results exact, handles unique,
    objects conserved at quiescence);
(B) the same workloads on the TSan build: data races keyed by racy location, compared with the
    recorded baseline of benign flag races (vlib/race_baseline.json); a race at a new location is reported;
(C) linearizability of short concurrent histories against a small sequential specification."""
import sys, os, shutil, json, glob, hashlib, hmac, random, collections, time
sys.path.insert(0, os.path.join(os.path.dirname(os.path.abspath(__file__)), '..', 'vlib'))
from harness import main, Part, pmap, SAN_ENV, VERIF
from p11client import Exec, Died, Hang, mkconf
import tsanlog, keymat

SO, USER = b'so-pin-18', b'user-pin-18'
WORKLOADS = ['session-objects', 'token-writers', 'session-churn', 'login-churn', 'crypto', 'destroy-race', 'first-find', 'shared-key', 'keygen', 'keygen-token', 'two-token', 'two-token-logins', 'destroy-set-race']
USER2, SO2 = b'user-pin-18b', b'so-pin-18b'

def setup(paths, ck, cfg, d, locking, seed, yield_p=0.2, yield_us=120, pre=None):
    mkconf(d, 'file'); env = dict(SAN_ENV)
    env['TSAN_OPTIONS'] = f'halt_on_error=0:report_signal_unsafe=0:history_size=5:second_deadlock_stack=1:log_path={d}/tsan.log'
    x = Exec(paths[cfg]['exe'], paths[cfg]['lib'], os.path.join(d, 'softhsm2.conf'), ck, env=env, stderr=f'{d}/stderr.log'); x.timeout = 300
    init = dict(locking=locking)
    if locking == 'cb': init['yield'] = {'seed': seed, 'p': yield_p, 'maxus': yield_us}
    for prelock in (pre or ()):       # earlier initialisations of the same process with another locking mode: the mode of the LAST C_Initialize must be in effect
        assert x.call('C_Initialize', locking=prelock)['rv'] == 0; assert x.call('C_Finalize')['rv'] == 0
    assert x.call('C_Initialize', **init)['rv'] == 0; x.init_args = init
    slot = x.call('C_GetSlotList', count=8)['slots'][-1]
    assert x.call('C_InitToken', slot=slot, pin=SO.hex(), label=b'tok18'.hex())['rv'] == 0
    s0 = x.call('C_OpenSession', slot=slot)['h']
    assert x.call('C_Login', s=s0, user=0, pin=SO.hex())['rv'] == 0 and x.call('C_InitPIN', s=s0, pin=USER.hex())['rv'] == 0 and x.call('C_Logout', s=s0)['rv'] == 0
    assert x.call('C_Login', s=s0, user=1, pin=USER.hex())['rv'] == 0
    assert x.call('C_CreateObject', s=s0, tmpl=x.T({'CKA_CLASS': ck.CKO_SECRET_KEY, 'CKA_KEY_TYPE': ck.CKK_GENERIC_SECRET, 'CKA_VALUE': b'S' * 32, 'CKA_TOKEN': True, 'CKA_PRIVATE': False, 'CKA_LABEL': b'SHARED', 'CKA_ID': b'init', 'CKA_SENSITIVE': False, 'CKA_EXTRACTABLE': True}))['rv'] == 0
    return x, slot, s0

def _strings(v):
    if isinstance(v, str): yield v
    elif isinstance(v, dict):
        for q in v.values(): yield from _strings(q)
    elif isinstance(v, list):
        for q in v: yield from _strings(q)

def gen_script(ck, x, slot, tid, rnd, n_iter, wl, race_handles=(), extra=None):
    S = []; E = []; extra = extra or {}
    def add(req, chk=None, dep=None):
        if dep is None:      # a step depends on every earlier step of this thread whose result it references
            refs = [int(v[1:].split('.')[0]) for v in _strings(req) if v.startswith('$')]; dep = [r for r in refs if r != 0]
            if req['fn'] in ('C_Sign', 'C_Verify', 'C_Encrypt', 'C_Decrypt', 'C_Digest') and S and S[-1]['fn'] == req['fn'] + 'Init': dep.append(len(S) - 1)      # a one-shot call continues the Init in front of it
        S.append(req); E.append((chk, dep) if chk is not None else None); return len(S) - 1
    so = add({'fn': 'C_OpenSession', 'slot': slot}, ('ok',)); sref = '$%d.h' % so
    if wl == 'destroy-race':
        order = list(race_handles)
        if tid % 2: order.reverse()
        for (lab, h) in order:
            add({'fn': 'C_GetSessionInfo', 's': sref}, None)
            add({'fn': 'C_DestroyObject', 's': sref, 'o': h}, ('race-destroy', lab))
        add({'fn': 'C_CloseSession', 's': sref}, ('ok',)); return S, E
    if wl == 'two-token-logins':      # PIN verifications (key derivations) of two DIFFERENT tokens at the same time: each holds only its own token's mutex; the right PIN is never refused, a wrong one never accepted
        S.clear(); E.clear(); sl, pin = (slot, USER) if tid % 2 == 0 else (extra['slot2'], USER2)
        for it in range(n_iter):
            o2 = add({'fn': 'C_OpenSession', 'slot': sl}, ('ok',)); s2 = '$%d.h' % o2
            add({'fn': 'C_Login', 's': s2, 'user': 1, 'pin': pin.hex()}, ('rv-in', ('CKR_OK', 'CKR_USER_ALREADY_LOGGED_IN')))
            if it % 3 == 0: add({'fn': 'C_Login', 's': s2, 'user': 1, 'pin': (pin[:-1] + bytes([pin[-1] ^ 1])).hex()}, ('rv-in', ('CKR_PIN_INCORRECT', 'CKR_USER_ALREADY_LOGGED_IN')))
            if it % 4 == 1: add({'fn': 'C_SetPIN', 's': s2, 'old': pin.hex(), 'new': pin.hex()}, ('ok',))
            add({'fn': 'C_Logout', 's': s2}, ('rv-in', ('CKR_OK', 'CKR_USER_NOT_LOGGED_IN')))
            add({'fn': 'C_CloseSession', 's': s2}, ('ok',))
        return S, E
    if wl == 'destroy-set-race':      # one thread destroys the prepared token objects while the others rewrite them with long values (an attribute transaction that stays open for a while)
        for (lab, h) in race_handles:
            if tid == 0: add({'fn': 'C_GetSessionInfo', 's': sref}, None); add({'fn': 'C_DestroyObject', 's': sref, 'o': h}, ('race-destroy', lab))
            else: add({'fn': 'C_SetAttributeValue', 's': sref, 'o': h, 'tmpl': x.T({'CKA_APPLICATION': b'A%d-' % tid + b'x' * rnd.choice([200, 20000, 300000])})}, None)
        add({'fn': 'C_CloseSession', 's': sref}, ('ok',)); return S, E
    if wl == 'first-find':       # objects that have NO handle yet (the library was re-initialised after they were stored): all threads look them up for the first time at once
        # one search over everything: C_FindObjectsInit registers a handle for every object in one call, in the same order in every thread
        add({'fn': 'C_FindObjectsInit', 's': sref, 'tmpl': []}, ('ok',)); add({'fn': 'C_FindObjects', 's': sref, 'max': 500}, ('first-findall', len(race_handles) + 1)); add({'fn': 'C_FindObjectsFinal', 's': sref}, ('ok',))
        for (lab, _) in race_handles:
            add({'fn': 'C_FindObjectsInit', 's': sref, 'tmpl': x.T({'CKA_LABEL': lab.encode()})}, ('ok',)); add({'fn': 'C_FindObjects', 's': sref, 'max': 8}, ('first-find', lab)); add({'fn': 'C_FindObjectsFinal', 's': sref}, ('ok',))
        add({'fn': 'C_CloseSession', 's': sref}, ('ok',)); return S, E
    if wl == 'shared-key':      # every thread uses the SAME private token keys (one OSObject, one per-token AES context for the private attributes): results are deterministic
        import refcrypt as R
        rsa = extra['rsa']
        for it in range(n_iter):
            data = rnd.randbytes(rnd.choice([1, 20, 64, 100])); sig = rsa.sign_pkcs1(data, 'sha256').hex()
            add({'fn': 'C_SignInit', 's': sref, 'mech': x.M('CKM_SHA256_RSA_PKCS'), 'key': extra['RSAK']}, ('ok',)); add({'fn': 'C_Sign', 's': sref, 'data': data.hex(), 'buf': 128}, ('out', sig))
            add({'fn': 'C_VerifyInit', 's': sref, 'mech': x.M('CKM_SHA256_RSA_PKCS'), 'key': extra['RSAP']}, ('ok',)); add({'fn': 'C_Verify', 's': sref, 'data': data.hex(), 'sig': sig}, ('ok',))
            iv = rnd.randbytes(16); pt = rnd.randbytes(rnd.choice([16, 32, 64]))
            add({'fn': 'C_EncryptInit', 's': sref, 'mech': x.M('CKM_AES_CBC', hex=iv.hex()), 'key': extra['AESK']}, ('ok',)); add({'fn': 'C_Encrypt', 's': sref, 'data': pt.hex(), 'buf': len(pt)}, ('out', R.cbc(R.AES(keymat.AES16), iv, pt).hex()))
            add({'fn': 'C_SignInit', 's': sref, 'mech': x.M('CKM_SHA256_HMAC'), 'key': extra['GENK']}, ('ok',)); add({'fn': 'C_Sign', 's': sref, 'data': data.hex(), 'buf': 32}, ('out', hmac.new(keymat.GEN32, data, hashlib.sha256).hexdigest()))
            if extra.get('RSAA'):      # a key that wants a context-specific login between Init and Sign (the re-authentication takes the token mutex while other threads use the token)
                add({'fn': 'C_SignInit', 's': sref, 'mech': x.M('CKM_SHA256_RSA_PKCS'), 'key': extra['RSAA']}, ('ok',)); add({'fn': 'C_Login', 's': sref, 'user': 2, 'pin': USER.hex()}, ('ok',)); add({'fn': 'C_Sign', 's': sref, 'data': data.hex(), 'buf': 128}, ('out', sig))
            add({'fn': 'C_GetAttributeValue', 's': sref, 'o': extra['AESK'], 'tmpl': [{'t': ck.CKA_VALUE, 'buf': 16}]}, ('value', keymat.AES16.hex()))
            add({'fn': 'C_GetAttributeValue', 's': sref, 'o': extra['RSAK'], 'tmpl': [{'t': ck.CKA_MODULUS, 'buf': 128}]}, ('value', keymat.K['rsa1024']['n'].lower().zfill(256)))
        add({'fn': 'C_CloseSession', 's': sref}, ('ok',)); return S, E
    if wl in ('keygen', 'keygen-token'):      # objects that come to exist through C_GenerateKey / C_GenerateKeyPair / C_UnwrapKey while other threads do the same
        for it in range(n_iter):
            lab = b'G%d-%d' % (tid, it); tok = wl == 'keygen-token' and rnd.random() < 0.6; priv = rnd.random() < 0.5
            g = add({'fn': 'C_GenerateKey', 's': sref, 'mech': x.M('CKM_AES_KEY_GEN'), 'tmpl': x.T({'CKA_VALUE_LEN': 16, 'CKA_TOKEN': tok, 'CKA_PRIVATE': priv, 'CKA_LABEL': lab, 'CKA_ENCRYPT': True, 'CKA_DECRYPT': True, 'CKA_SENSITIVE': False, 'CKA_EXTRACTABLE': True})}, ('created', lab, tok)); gref = '$%d.h' % g
            add({'fn': 'C_FindObjectsInit', 's': sref, 'tmpl': x.T({'CKA_LABEL': lab})}, ('ok',)); add({'fn': 'C_FindObjects', 's': sref, 'max': 8}, ('find-count', lab, 1)); add({'fn': 'C_FindObjectsFinal', 's': sref}, ('ok',))
            gv = add({'fn': 'C_GetAttributeValue', 's': sref, 'o': gref, 'tmpl': [{'t': ck.CKA_VALUE, 'buf': 16}]}, ('ok',))
            w = add({'fn': 'C_WrapKey', 's': sref, 'mech': x.M('CKM_AES_KEY_WRAP'), 'wkey': extra['WRAPK'], 'key': gref, 'buf': 64}, ('ok',))
            u = add({'fn': 'C_UnwrapKey', 's': sref, 'mech': x.M('CKM_AES_KEY_WRAP'), 'ukey': extra['WRAPK'], 'wrapped': '$%d.out.data' % w, 'tmpl': x.T({'CKA_CLASS': ck.CKO_SECRET_KEY, 'CKA_KEY_TYPE': ck.CKK_AES, 'CKA_TOKEN': False, 'CKA_PRIVATE': priv, 'CKA_SENSITIVE': False, 'CKA_EXTRACTABLE': True, 'CKA_LABEL': lab + b'-u'})}, ('ok',)); uref = '$%d.h' % u
            add({'fn': 'C_GetAttributeValue', 's': sref, 'o': uref, 'tmpl': [{'t': ck.CKA_VALUE, 'buf': 16}]}, ('same-value', gv), dep=[g, gv, w, u])
            kp = add({'fn': 'C_GenerateKeyPair', 's': sref, 'mech': x.M('CKM_EC_KEY_PAIR_GEN'), 'pub': x.T({'CKA_EC_PARAMS': keymat.OID['p256'], 'CKA_VERIFY': True, 'CKA_TOKEN': tok, 'CKA_LABEL': lab + b'-pub'}),
                      'priv': x.T({'CKA_SIGN': True, 'CKA_TOKEN': tok, 'CKA_PRIVATE': priv, 'CKA_LABEL': lab + b'-prv'})}, ('ok',))
            data = rnd.randbytes(32)
            add({'fn': 'C_SignInit', 's': sref, 'mech': x.M('CKM_ECDSA'), 'key': '$%d.hpriv' % kp}, ('ok',)); sg = add({'fn': 'C_Sign', 's': sref, 'data': data.hex(), 'buf': 64}, ('ok',))
            add({'fn': 'C_VerifyInit', 's': sref, 'mech': x.M('CKM_ECDSA'), 'key': '$%d.hpub' % kp}, ('ok',)); add({'fn': 'C_Verify', 's': sref, 'data': data.hex(), 'sig': '$%d.out.data' % sg}, ('ok',))
            add({'fn': 'C_DestroyObject', 's': sref, 'o': gref}, ('destroyed', lab))
            for h in (uref, '$%d.hpriv' % kp, '$%d.hpub' % kp): add({'fn': 'C_DestroyObject', 's': sref, 'o': h}, ('ok',))
        add({'fn': 'C_CloseSession', 's': sref}, ('ok',)); return S, E
    if wl == 'two-token' and tid % 2 == 1:      # odd threads live on the SECOND token: sessions come and go (the last close logs that token out), while even threads work on the first
        S.clear(); E.clear(); slot2 = extra['slot2']
        for it in range(n_iter * 2):
            o2 = add({'fn': 'C_OpenSession', 'slot': slot2}, ('ok',)); s2 = '$%d.h' % o2
            add({'fn': 'C_Login', 's': s2, 'user': 1, 'pin': USER2.hex()}, ('rv-in', ('CKR_OK', 'CKR_USER_ALREADY_LOGGED_IN')))
            add({'fn': 'C_GetSessionInfo', 's': s2}, ('state-user',), dep=[o2])
            lab = b'B%d-%d' % (tid, it)
            add({'fn': 'C_CreateObject', 's': s2, 'tmpl': x.T({'CKA_CLASS': ck.CKO_DATA, 'CKA_TOKEN': False, 'CKA_PRIVATE': True, 'CKA_LABEL': lab, 'CKA_VALUE': b'b' * 8})}, ('ok',))
            add({'fn': 'C_FindObjectsInit', 's': s2, 'tmpl': x.T({'CKA_LABEL': lab})}, ('ok',)); add({'fn': 'C_FindObjects', 's': s2, 'max': 8}, ('find-count', lab, 1)); add({'fn': 'C_FindObjectsFinal', 's': s2}, ('ok',))
            add({'fn': 'C_GetSlotList', 'null': True}, ('ok',)); add({'fn': 'C_GetTokenInfo', 'slot': rnd.choice([slot, slot2])}, ('ok',))
            add({'fn': 'C_CloseSession', 's': s2}, ('ok',))
        return S, E
    for it in range(n_iter):
        if wl == 'session-churn':
            o2 = add({'fn': 'C_OpenSession', 'slot': slot, 'flags': 4 | (2 if rnd.random() < 0.5 else 0)}, ('ok',)); s2 = '$%d.h' % o2
            add({'fn': 'C_GetSessionInfo', 's': s2}, ('state-user',))
            lab = b'C%d-%d' % (tid, it)
            c = add({'fn': 'C_CreateObject', 's': s2, 'tmpl': x.T({'CKA_CLASS': ck.CKO_DATA, 'CKA_TOKEN': False, 'CKA_PRIVATE': rnd.random() < 0.5, 'CKA_LABEL': lab, 'CKA_VALUE': b'v' * 8})}, ('created', lab, False))
            add({'fn': 'C_FindObjectsInit', 's': sref, 'tmpl': x.T({'CKA_LABEL': lab})}, ('ok',)); add({'fn': 'C_FindObjects', 's': sref, 'max': 8}, ('find-count', lab, 1)); add({'fn': 'C_FindObjectsFinal', 's': sref}, ('ok',))
            add({'fn': 'C_CloseSession', 's': s2}, ('ok',))
            add({'fn': 'C_GetSessionInfo', 's': s2}, ('rv', 'CKR_SESSION_HANDLE_INVALID'))
            add({'fn': 'C_FindObjectsInit', 's': sref, 'tmpl': x.T({'CKA_LABEL': lab})}, ('ok',)); add({'fn': 'C_FindObjects', 's': sref, 'max': 8}, ('find-count', lab, 0)); add({'fn': 'C_FindObjectsFinal', 's': sref}, ('ok',))
            continue
        if wl == 'login-churn' and tid == 0:
            add({'fn': 'C_Logout', 's': sref}, ('ok',)); add({'fn': 'C_GetSessionInfo', 's': sref}, ('state-public',)); add({'fn': 'C_Login', 's': sref, 'user': 1, 'pin': USER.hex()}, ('ok',)); add({'fn': 'C_GetSessionInfo', 's': sref}, ('state-user',))
            continue
        on_token = wl == 'token-writers' and rnd.random() < 0.7
        private = (wl not in ('login-churn',)) and rnd.random() < 0.5
        label = b'T%d-I%d' % (tid, it); val = rnd.randbytes(32)
        c = add({'fn': 'C_CreateObject', 's': sref, 'tmpl': x.T({'CKA_CLASS': ck.CKO_SECRET_KEY, 'CKA_TOKEN': on_token, 'CKA_PRIVATE': private, 'CKA_LABEL': label, 'CKA_KEY_TYPE': ck.CKK_GENERIC_SECRET, 'CKA_VALUE': val, 'CKA_SENSITIVE': False, 'CKA_EXTRACTABLE': True, 'CKA_ID': b'a0', 'CKA_SIGN': True})}, ('created', label, on_token))
        oref = '$%d.h' % c
        add({'fn': 'C_FindObjectsInit', 's': sref, 'tmpl': x.T({'CKA_LABEL': label})}, ('ok',)); add({'fn': 'C_FindObjects', 's': sref, 'max': 8}, ('find-count', label, 1)); add({'fn': 'C_FindObjectsFinal', 's': sref}, ('ok',))
        add({'fn': 'C_GetAttributeValue', 's': sref, 'o': oref, 'tmpl': [{'t': ck.CKA_VALUE, 'buf': 64}]}, ('value', val.hex()))
        add({'fn': 'C_SetAttributeValue', 's': sref, 'o': oref, 'tmpl': x.T({'CKA_ID': b'a1-%d' % it})}, ('ok',))
        add({'fn': 'C_GetAttributeValue', 's': sref, 'o': oref, 'tmpl': [{'t': ck.CKA_ID, 'buf': 64}]}, ('value', (b'a1-%d' % it).hex()))
        # the shared token object: every thread reads it; in token-writers even threads also write it (unique values)
        add({'fn': 'C_FindObjectsInit', 's': sref, 'tmpl': x.T({'CKA_LABEL': b'SHARED'})}, ('ok',)); sf = add({'fn': 'C_FindObjects', 's': sref, 'max': 8}, ('find-count', b'SHARED', 1)); add({'fn': 'C_FindObjectsFinal', 's': sref}, ('ok',))
        if wl == 'token-writers' and tid % 2 == 0: add({'fn': 'C_SetAttributeValue', 's': sref, 'o': '$%d.objs.0' % sf, 'tmpl': x.T({'CKA_ID': b'W%d-%d' % (tid, it)})}, ('ok',))
        else: add({'fn': 'C_GetAttributeValue', 's': sref, 'o': '$%d.objs.0' % sf, 'tmpl': [{'t': ck.CKA_ID, 'buf': 64}, {'t': ck.CKA_VALUE, 'buf': 64}]}, ('shared-read', wl == 'token-writers'))
        data = rnd.randbytes(rnd.choice([0, 1, 55, 64, 200]))
        add({'fn': 'C_DigestInit', 's': sref, 'mech': x.M('CKM_SHA256')}, ('ok',)); add({'fn': 'C_Digest', 's': sref, 'data': data.hex(), 'buf': 32}, ('out', hashlib.sha256(data).hexdigest()))
        if wl in ('crypto', 'session-objects'):
            add({'fn': 'C_SignInit', 's': sref, 'mech': x.M('CKM_SHA256_HMAC'), 'key': oref}, ('ok',)); add({'fn': 'C_Sign', 's': sref, 'data': data.hex(), 'buf': 32}, ('out', hmac.new(val, data, hashlib.sha256).hexdigest()))
            if wl == 'crypto':
                kv = rnd.randbytes(16); iv = rnd.randbytes(16); pt = rnd.randbytes(48)
                k = add({'fn': 'C_CreateObject', 's': sref, 'tmpl': x.T({'CKA_CLASS': ck.CKO_SECRET_KEY, 'CKA_KEY_TYPE': ck.CKK_AES, 'CKA_VALUE': kv, 'CKA_TOKEN': False, 'CKA_PRIVATE': private, 'CKA_ENCRYPT': True, 'CKA_DECRYPT': True, 'CKA_LABEL': label + b'-aes'})}, ('ok',)); kref = '$%d.h' % k
                add({'fn': 'C_EncryptInit', 's': sref, 'mech': x.M('CKM_AES_CBC', hex=iv.hex()), 'key': kref}, ('ok',)); e = add({'fn': 'C_Encrypt', 's': sref, 'data': pt.hex(), 'buf': 48}, ('ok',))
                add({'fn': 'C_DecryptInit', 's': sref, 'mech': x.M('CKM_AES_CBC', hex=iv.hex()), 'key': kref}, ('ok',)); add({'fn': 'C_Decrypt', 's': sref, 'data': '$%d.out.data' % e, 'buf': 48}, ('out', pt.hex()))
                add({'fn': 'C_DestroyObject', 's': sref, 'o': kref}, ('ok',))
        if rnd.random() < 0.7: add({'fn': 'C_DestroyObject', 's': sref, 'o': oref}, ('destroyed', label))
    add({'fn': 'C_CloseSession', 's': sref}, ('ok',))
    return S, E

def judge_threads(ck, wl, scripts, exps, results, V):
    """V(key, what, detail).  Returns (calls, created{label:(handle,on_token)}, destroyed set)"""
    handles = {}; created = {}; destroyed = set(); calls = 0; shared_handles = {}; race = {}; first = {}; first_n = [0]
    lc = wl == 'login-churn'
    for t, (res, E) in enumerate(zip(results, exps)):
        for i, (st, chk) in enumerate(zip(res, E)):
            calls += 1; rvn = ck.rv(st['rv']); fn = scripts[t][i]['fn']
            if rvn.startswith('CKR_?') or st['rv'] < 0: V(f'{fn}|{wl}|not-a-CKR-code', 'return value is not a PKCS#11 return code', {'rv': st['rv']})
            if fn == 'C_OpenSession' and st['rv'] == 0: handles.setdefault(st['h'], []).append(('session', t, i))
            if chk is None: continue
            chk, dep = chk
            if fn in ('C_FindObjects', 'C_FindObjectsFinal'): dep = dep + [j for j in range(i - 1, max(-1, i - 3), -1) if scripts[t][j]['fn'] == 'C_FindObjectsInit'][:1]
            if any(res[j]['rv'] != 0 for j in dep): continue      # consequence of an earlier failure of this thread, which is reported where it happened
            k = chk[0]
            if k == 'ok' and st['rv'] != 0: V(f'{fn}|{wl}|{rvn}', f'{fn} failed although no sequential order lets it fail', {'thread': t, 'step': i, 'req': scripts[t][i]})
            elif k == 'rv-in':
                if rvn not in chk[1]: V(f'{fn}|{wl}|{rvn}', 'a return code that no sequential order explains', {'thread': t, 'step': i, 'allowed': chk[1]})
            elif k == 'same-value':
                a = st['tmpl'][0].get('data') if st.get('tmpl') else None; b = res[chk[1]]['tmpl'][0].get('data') if res[chk[1]].get('tmpl') else None
                if st['rv'] != 0 or a != b: V(f'{fn}|{wl}|unwrapped-key-{rvn if st["rv"] else "differs-from-wrapped-key"}', 'a key wrapped and unwrapped by one thread does not read back the value it had', {'thread': t, 'step': i, 'got': a, 'want': b})
            elif k == 'rv' and rvn != chk[1]: V(f'{fn}|{wl}|{rvn}-instead-of-{chk[1]}', 'unexpected return code', {'thread': t, 'step': i})
            elif k == 'created':
                if st['rv'] != 0: V(f'{fn}|{wl}|{rvn}', 'object creation failed although no sequential order lets it fail', {'thread': t, 'step': i, 'label': chk[1].decode()})
                else: created[chk[1]] = (st['h'], chk[2]); handles.setdefault(st['h'], []).append(('object', chk[1].decode()))
            elif k == 'find-count':
                if st['rv'] == 0 and chk[1] == b'SHARED' and st.get('objs'): shared_handles.setdefault(st['objs'][0], []).append(t)
                if st['rv'] != 0: V(f'{fn}|{wl}|{rvn}', 'C_FindObjects failed', {'thread': t, 'step': i})
                elif st['n'] != chk[2]:
                    created_ok = all(res[j]['rv'] == 0 for j in range(max(0, i - 3), i) if scripts[t][j]['fn'] == 'C_CreateObject')
                    if created_ok: V(f'C_FindObjects|{wl}|found-{st["n"] if st["n"] < 3 else "many"}-instead-of-{chk[2]}', 'a search for a unique label returned the wrong number of objects (object lost or duplicated)', {'thread': t, 'step': i, 'label': chk[1].decode(), 'n': st['n']})
            elif k == 'value':
                got = st['tmpl'][0].get('data') if st.get('tmpl') else None
                if st['rv'] != 0 or got != chk[1]:
                    V(f'{fn}|{wl}|own-object-readback-{rvn if st["rv"] else "wrong-value"}', 'a thread did not read back what it wrote to its own object', {'thread': t, 'step': i, 'got': got, 'want': chk[1]})
            elif k == 'out':
                got = st.get('out', {}).get('data')
                if st['rv'] != 0 or got != chk[1]: V(f'{fn}|{wl}|thread-local-result-{rvn if st["rv"] else "wrong-bytes"}', 'a computation that cannot depend on other threads gave a wrong result', {'thread': t, 'step': i, 'got': got, 'want': chk[1]})
            elif k == 'shared-read':
                if st['rv'] != 0: V(f'{fn}|{wl}|shared-read-{rvn}', 'reading the shared token object failed', {'thread': t, 'step': i})
                else:
                    idv = bytes.fromhex(st['tmpl'][0].get('data', '')); val = st['tmpl'][1].get('data')
                    if val != (b'S' * 32).hex(): V(f'{fn}|{wl}|shared-read-wrong-value', 'the shared object returned a value nobody wrote', {'got': val})
                    if not (idv == b'init' or (chk[1] and idv[:1] == b'W')): V(f'{fn}|{wl}|shared-read-unwritten-id', 'the shared object returned an id nobody wrote', {'got': idv.hex()})
            elif k == 'destroyed':
                if st['rv'] == 0: destroyed.add(chk[1])
                else: V(f'{fn}|{wl}|{rvn}', 'destroying the thread\'s own object failed', {'thread': t, 'step': i})
            elif k in ('state-user', 'state-public'):
                want = (1, 3) if k == 'state-user' else (0, 2)
                if st['rv'] != 0 or st.get('state') not in want: V(f'{fn}|{wl}|wrong-state', 'session state inconsistent with the login history', {'got': st.get('state'), 'want': want})
            elif k == 'race-destroy':
                race.setdefault(chk[1], []).append((t, rvn))
            elif k == 'first-findall':
                if st['rv'] != 0 or st.get('n') != chk[1]: V(f'C_FindObjects|{wl}|found-{st.get("n")}-instead-of-{chk[1]}', 'a search over all stored token objects returned the wrong number of objects', {'thread': t})
                else: first.setdefault('*all*', set()).update(st['objs']); first_n[0] = chk[1]
            elif k == 'first-find':
                if st['rv'] != 0 or st.get('n') != 1: V(f'C_FindObjects|{wl}|found-{st.get("n")}-instead-of-1', 'a stored token object was not found exactly once', {'thread': t, 'label': chk[1]})
                else: first.setdefault(chk[1], set()).add(st['objs'][0])
    for h, l in handles.items():
        if len(l) > 1: V(f'handle-issued-twice|{wl}', 'the same handle value was returned for two different things', {'handle': h, 'uses': l})
    if len(shared_handles) > 1:
        V(f'one-object-several-live-handles|{wl}', 'concurrent searches returned different live handles for the same token object (executed one at a time, every search returns the one registered handle)', {'handles': {str(k): sorted(set(v)) for k, v in shared_handles.items()}})
    if '*all*' in first:
        hs = first.pop('*all*')
        if len(hs) > first_n[0]: V(f'one-object-several-live-handles|{wl}', 'concurrent first searches returned different live handles for the same token object (executed one at a time, every search returns the one registered handle)', {'objects': first_n[0], 'distinct_handles_over_all_threads': len(hs)})
    for lab, hs in first.items():
        if len(hs) > 1: V(f'one-object-several-live-handles|{wl}', 'concurrent first searches returned different live handles for the same token object (executed one at a time, every search returns the one registered handle)', {'label': lab, 'handles': sorted(hs)})
    for obj, l in race.items():
        oks = [x for x in l if x[1] == 'CKR_OK']
        if len(oks) != 1: V(f'C_DestroyObject|{wl}|same-object-destroyed-{len(oks)}-times', 'several threads destroyed the same object and not exactly one of them succeeded', {'object': obj, 'results': l})
    judge_threads.race = race
    return calls, created, destroyed

def stress_job(job):
    from ck import CK
    ck = CK(job['hdr']); part = Part(); cfg = job['cfg']; wl = job['wl']; seed = job['seed']; nth = job['threads']
    d = os.path.join(job['scratch'], f'st-{cfg}-{wl}-{seed}-{nth}'); shutil.rmtree(d, ignore_errors=True); os.makedirs(d)
    rnd = random.Random(seed); viol = []
    tokwl = wl in ('token-writers', 'keygen-token'); oc = 'token-objects' if tokwl else 'session-objects-only'
    FAMILY_OWN = ('CKR_TEMPLATE_INCONSISTENT', 'CKR_GENERAL_ERROR', 'CKR_OBJECT_HANDLE_INVALID', 'own-object-readback', 'found-0-instead-of-1', 'object-lost', 'object-without-label', 'CKR_ATTRIBUTE_TYPE_INVALID', 'CKR_ATTRIBUTE_VALUE_INVALID')
    def V(key, what, detail):
        k = key.replace('|' + wl, '|' + oc)
        if tokwl:
            # known root cause (DESIGN 4 row 20): ObjectFile::refresh drops and re-reads the attribute map without the object mutex, so a thread that is
            # still building its own new token object loses attributes; the symptoms vary, the family is one: own new token object damaged
            req = detail.get('req') or {}; shared = 'objs.0' in str(req.get('o', '')) or 'shared' in key
            if key.startswith('C_FindObjectsInit|') and 'CKR_GENERAL_ERROR' in key: pass
            elif shared and key.startswith('C_SetAttributeValue|') and key.endswith('CKR_GENERAL_ERROR'): k = 'token-objects|shared-object|concurrent-C_SetAttributeValue-refused(CKR_GENERAL_ERROR)'
            elif not shared and any(f in key for f in FAMILY_OWN) and not key.startswith(('crash', 'deadlock', 'handle-issued-twice', 'C_Digest', 'C_Decrypt', 'C_Encrypt', 'C_OpenSession', 'C_CloseSession', 'C_Finalize') + (() if wl == 'keygen-token' else ('C_Sign',))):
                k = 'token-objects|own-new-object|attributes-lost-or-handle-invalid(ObjectFile::refresh window)'
        if wl == 'keygen-token' and k == key.replace('|' + wl, '|' + oc) and '$' in json.dumps(detail.get('req') or {}) and key.split('|')[-1].startswith('CKR_') and not key.startswith(('C_OpenSession', 'C_CloseSession', 'C_Finalize', 'C_Digest')):
            # the same root cause seen through other entry points: a call on the thread's OWN freshly generated token object finds attributes missing (CKA_EXTRACTABLE, CKA_SIGN, the value ...);
            # the strict variant of this workload (session objects only, 'keygen') has no such exemption
            k = 'token-objects|own-new-object|attributes-lost-or-handle-invalid(ObjectFile::refresh window)'
        if wl == 'destroy-set-race' and (key.startswith('quiescent|') or key.startswith('C_DestroyObject|')):
            # known root cause (DESIGN 8.4, C18 family D): OSToken::deleteObject invalidates and unlinks an object whose attribute transaction another thread still has open; that thread's
            # commit (or its abort, which re-reads) re-creates or empties the file: after a re-initialisation the destroyed object is back, without label, or twice
            k = 'token-objects|same-object|destroyed-while-another-thread-rewrites-it(resurrected-or-damaged-after-re-initialisation)'
        viol.append((k, what, detail))
    x = None
    try:
        x, slot, s0 = setup(job['paths'], ck, cfg, d, job['locking'], seed, yield_p=job.get('yield_p', 0.2), yield_us=job.get('yield_us', 120), pre=job.get('pre'))
        scripts = []; exps = []; race_handles = []
        if wl == 'destroy-set-race':
            for i in range(job['iters']):
                lab = 'DS%d' % i; rr = x.call('C_CreateObject', s=s0, tmpl=x.T({'CKA_CLASS': ck.CKO_DATA, 'CKA_TOKEN': True, 'CKA_PRIVATE': i % 2 == 0, 'CKA_LABEL': lab.encode(), 'CKA_APPLICATION': b'init', 'CKA_VALUE': b'r' * 8})); assert rr['rv'] == 0
                race_handles.append((lab, rr['h']))
        if wl == 'destroy-race':      # complete objects exist before any thread starts: public session objects of the setup session and public token objects
            for i in range(job['iters'] * 3):
                lab = 'R%d' % i; rr = x.call('C_CreateObject', s=s0, tmpl=x.T({'CKA_CLASS': ck.CKO_DATA, 'CKA_TOKEN': i % 3 == 0, 'CKA_PRIVATE': False, 'CKA_LABEL': lab.encode(), 'CKA_VALUE': b'r' * 8})); assert rr['rv'] == 0
                race_handles.append((lab, rr['h']))
        if wl == 'first-find':
            for i in range(job['iters'] * 2):
                lab = 'F%d' % i; rr = x.call('C_CreateObject', s=s0, tmpl=x.T({'CKA_CLASS': ck.CKO_DATA, 'CKA_TOKEN': True, 'CKA_PRIVATE': False, 'CKA_LABEL': lab.encode(), 'CKA_VALUE': b'f' * 8})); assert rr['rv'] == 0
                race_handles.append((lab, 0))
            assert x.call('C_Finalize')['rv'] == 0 and x.call('C_Initialize', **x.init_args)['rv'] == 0
            slot = [sl for sl in x.call('C_GetSlotList', count=8)['slots'] if x.call('C_GetTokenInfo', slot=sl)['flags'] & ck.CKF_TOKEN_INITIALIZED][0]
            s0 = x.call('C_OpenSession', slot=slot)['h']; assert x.call('C_Login', s=s0, user=1, pin=USER.hex())['rv'] == 0
        extra = {}
        def mk(t, **kw):
            rr = x.call('C_CreateObject', s=s0, tmpl=x.T(dict(t, **kw))); assert rr['rv'] == 0, rr; return rr['h']
        if wl == 'shared-key':
            import refcrypt as R
            KT = keymat.key_templates(ck); rk = keymat.K['rsa1024']; extra['rsa'] = R.RSAKey(int(rk['n'], 16), int(rk['e'], 16), int(rk['d'], 16), int(rk['p'], 16), int(rk['q'], 16))
            extra['RSAK'] = mk(KT['rsa_priv'], CKA_TOKEN=True, CKA_PRIVATE=True, CKA_LABEL=b'RSAK', CKA_SENSITIVE=True, CKA_EXTRACTABLE=False); extra['RSAP'] = mk(KT['rsa_pub'], CKA_TOKEN=True, CKA_PRIVATE=False, CKA_LABEL=b'RSAP')
            rr = x.call('C_CreateObject', s=s0, tmpl=x.T(dict(KT['rsa_priv'], CKA_TOKEN=True, CKA_PRIVATE=True, CKA_LABEL=b'RSAA', CKA_ALWAYS_AUTHENTICATE=True))); extra['RSAA'] = rr['h'] if rr['rv'] == 0 else None
            extra['AESK'] = mk(KT['aes'], CKA_TOKEN=True, CKA_PRIVATE=True, CKA_LABEL=b'AESK'); extra['GENK'] = mk(KT['generic'], CKA_TOKEN=False, CKA_PRIVATE=True, CKA_LABEL=b'GENK')
        if wl in ('keygen', 'keygen-token'): extra['WRAPK'] = mk(keymat.key_templates(ck)['aes'], CKA_TOKEN=True, CKA_PRIVATE=False, CKA_LABEL=b'WRAPK')
        if wl in ('two-token', 'two-token-logins'):
            x.call('C_GetSlotList', null=True); free = [sl for sl in x.call('C_GetSlotList', count=8)['slots'] if not x.call('C_GetTokenInfo', slot=sl)['flags'] & ck.CKF_TOKEN_INITIALIZED][0]
            assert x.call('C_InitToken', slot=free, pin=SO2.hex(), label=b'tok18b'.hex())['rv'] == 0; x.call('C_GetSlotList', null=True)
            extra['slot2'] = [sl for sl in x.call('C_GetSlotList', count=8)['slots'] if sl != slot and x.call('C_GetTokenInfo', slot=sl)['flags'] & ck.CKF_TOKEN_INITIALIZED][0]
            sb = x.call('C_OpenSession', slot=extra['slot2'])['h']; assert x.call('C_Login', s=sb, user=0, pin=SO2.hex())['rv'] == 0 and x.call('C_InitPIN', s=sb, pin=USER2.hex())['rv'] == 0 and x.call('C_CloseSession', s=sb)['rv'] == 0
        for t in range(nth): S, E = gen_script(ck, x, slot, t, rnd, job['iters'], wl, race_handles, extra); scripts.append(S); exps.append(E)
        t0 = time.time()
        try: r = x.raw({'fn': 'threads', 'scripts': scripts, 'timeout': 600})
        except Died as ex:
            if cfg == 'tsan' and not ex.stderr_tail: part.inconc(f'tsan executor died rc={ex.rc}'); return part
            part.violation(f'crash|{wl}|{ex.kind()}@{ex.where()}', 'the library crashed / terminated the process under concurrent use', {'workload': wl, 'threads': nth, 'seed': seed, 'locking': job['locking'], 'cfg': cfg, 'stderr': (ex.stderr_tail or '')[-2500:]})
            part.case((cfg, wl, nth, job['locking'])); return part
        except Hang:
            part.violation(f'deadlock-or-hang|{wl}', 'no reply from the threads run within the watchdog (deadlock)', {'workload': wl, 'threads': nth, 'seed': seed, 'locking': job['locking'], 'cfg': cfg}); return part
        calls, created, destroyed = judge_threads(ck, wl, scripts, exps, r['results'], V); race_results = dict(getattr(judge_threads, 'race', {}))
        if job['locking'] == 'cb' and not (r.get('locks') or 0) > 0:
            V('locking|application-mutex-callbacks-never-invoked', 'C_Initialize was given mutex callbacks but the library never called LockMutex during a concurrent run: locking is not in effect', {'pre': job.get('pre'), 'locks': r.get('locks')})
        overlap = sum(1 for res in r['results'] if res) >= 2
        # quiescent conservation check through the setup session (user still logged in, except after login churn)
        if wl == 'login-churn': x.call('C_Login', s=s0, user=1, pin=USER.hex())
        if wl == 'two-token-logins':      # both user PINs still log in (a key derivation disturbed while a PIN was being re-wrapped would have lost it)
            for sl_, pin_ in ((slot, USER), (extra['slot2'], USER2)):
                sx = x.call('C_OpenSession', slot=sl_)['h']; x.call('C_Logout', s=sx); rr = x.call('C_Login', s=sx, user=1, pin=pin_.hex())
                if rr['rv'] != 0: V(f'quiescent|{wl}|user-pin-no-longer-logs-in', 'after the run a user PIN that was only ever replaced by itself no longer logs in', {'rv': rr['rvname']})
                x.call('C_Logout', s=sx); x.call('C_CloseSession', s=sx)
            x.call('C_Login', s=s0, user=1, pin=USER.hex())
        if wl == 'destroy-set-race':      # what was destroyed stays destroyed also for a library that reads the token directory afresh
            assert x.call('C_Finalize')['rv'] == 0 and x.call('C_Initialize', **x.init_args)['rv'] == 0
            slot = [sl for sl in x.call('C_GetSlotList', count=8)['slots'] if x.call('C_GetTokenInfo', slot=sl)['flags'] & ck.CKF_TOKEN_INITIALIZED][0]
            s0 = x.call('C_OpenSession', slot=slot)['h']; assert x.call('C_Login', s=s0, user=1, pin=USER.hex())['rv'] == 0
            for lab, l in list(race_results.items()):
                if any(rv == 'CKR_OK' for _, rv in l): destroyed.add(lab.encode())
        rvn, hs = x.findall(s0, {}); labels = []
        for h in hs:
            rr = x.getattrs(s0, h, ['CKA_LABEL'])[1].get('CKA_LABEL'); labels.append(rr)
        cnt = collections.Counter(labels)
        for l, n in cnt.items():
            if n > 1: V(f'quiescent|{wl}|object-duplicated', 'an object is present twice after the run', {'label': l})
            if l in destroyed: V(f'quiescent|{wl}|destroyed-object-found', 'a destroyed object is still found', {'label': l})
            if l is None: V(f'quiescent|{wl}|object-without-label', 'an object without label exists after the run', {})
        for l, (h, on_token) in created.items():
            if on_token and l not in destroyed and cnt.get(l, 0) == 0: V(f'quiescent|{wl}|object-lost', 'a created token object is missing after the run', {'label': l})
        if cnt.get(b'SHARED', 0) != 1: V(f'quiescent|{wl}|shared-object-count-{cnt.get(b"SHARED", 0)}', 'the shared object is missing or duplicated', {})
        fin = x.call('C_Finalize')
        if fin['rv'] != 0: V(f'C_Finalize|{wl}|{fin["rvname"]}', 'finalize failed after the run', {})
        x.close(); x = None
        for key, what, detail in viol: part.violation(key, what, dict(detail, workload=wl, threads=nth, seed=seed, locking=job['locking'], cfg=cfg))
        part.case((cfg, wl, nth, job['locking'], r.get('lockhash')), nontrivial=overlap, sample={'cfg': cfg, 'workload': wl, 'threads': nth, 'locking': job['locking'], 'calls': calls, 'lock_acquisitions': r.get('locks'), 'lockhash': r.get('lockhash'), 'thread0_head': [q['fn'] for q in scripts[0][:12]]} if seed % 5 == 0 else None)
        part.count('thread_calls', calls); part.count('runs_' + cfg, 1); part.count('lock_acquisitions', r.get('locks') or 0)
        part.observe('lock-order hashes', r.get('lockhash'), cap=200)
        if cfg == 'tsan':
            recs = tsanlog.parse(glob.glob(d + '/tsan.log*')); summ = tsanlog.summarize(recs)
            base = job['race_baseline']
            for k, v in summ.items():
                ks = tsanlog.keystr(k); part.count('tsan_reports', v['n'])
                if ks in base: part.observe('baseline race (benign, see vlib/race_baseline.json): ' + ks)
                elif not tsanlog.in_library(k, v): part.observe('race outside the library (uninstrumented dependency): ' + ks)
                else: part.violation(f'data-race|{ks}', 'ThreadSanitizer reports a data race at a location that is not in the recorded baseline: a shared structure is accessed without its mutex', {'workload': wl, 'threads': nth, 'seed': seed, 'pairs': sorted(map(str, v['pairs']))[:4], 'sample': v.get('text', '')[:3000]})
    except AssertionError as e: part.inconc(f'setup failed: {e!r}')
    except Died as ex: part.inconc(f'executor died outside the threads run: {ex}')
    except Hang: part.inconc('hang outside the threads run')
    finally:
        if x is not None: x.kill()
        shutil.rmtree(d, ignore_errors=True)
    return part

# ---------------------------------------------------------------- (C) linearizability of short histories
# sequential specification: state = (login in {None,'U'}, frozenset of live session ids, frozenset of (label, private, owner) objects)
def lin_step(state, op, res):
    """returns list of successor states in which `res` is a legal response to `op` (empty = impossible here)"""
    login, sess, objs = state; k = op[0]; ok = res['rv'] == 0
    if k == 'open': return [(login, sess | {op[1]}, objs)] if ok else []
    if k == 'close':
        if not ok: return []
        rest = sess - {op[1]}
        if not rest: return [(None, rest, frozenset())]      # closing the last session of the token logs it out; no session object can remain
        return [(login, rest, frozenset(o for o in objs if o[2] != op[1]))]
    if k == 'login':      # ('login',) = the user, ('login', 'S') = the security officer (all sessions of these histories are read-write)
        who = op[1] if len(op) > 1 else 'U'
        if login is None: return [(who, sess, objs)] if ok else []
        return [] if ok else [state]
    if k == 'logout':      # the property does not say that logging out of a public session must fail (the library answers CKR_OK)
        if ok: return [(None, sess, frozenset(o for o in objs if not o[1]))]
        return [state] if login is None else []
    if k == 'create':
        _, label, private, owner = op; allowed = (not private) or login == 'U'
        if allowed: return [(login, sess, objs | {(label, private, owner)})] if ok else []
        return [] if ok else [state]
    if k == 'find':
        if not ok: return []
        vis = sum(1 for o in objs if o[0] == op[1] and (not o[1] or login == 'U'))
        return [state] if res.get('n') == vis else []
    if k == 'destroy':
        _, label = op; o = [o for o in objs if o[0] == label]
        alive = bool(o) and ((not o[0][1]) or login == 'U')
        if alive: return [(login, sess, objs - {o[0]})] if ok else []
        return [] if ok else [state]
    if k == 'info':
        if not ok: return []
        st = res.get('state')
        return [state] if ((st in (1, 3)) if login == 'U' else (st == 4) if login == 'S' else (st in (0, 2))) else []
    return [state]

def lin_free(state, op):
    """successors when the response of `op` is ignored (used to locate the single call that cannot be explained)"""
    login, sess, objs = state; k = op[0]; out = [state]
    if k == 'create': out.append((login, sess, objs | {(op[1], op[2], op[3])}))
    elif k == 'destroy': out.append((login, sess, frozenset(o for o in objs if o[0] != op[1])))
    elif k == 'login': out.append((op[1] if len(op) > 1 else 'U', sess, objs))
    elif k == 'logout': out.append((None, sess, frozenset(o for o in objs if not o[1])))
    elif k == 'open': out.append((login, sess | {op[1]}, objs))
    elif k == 'close':
        rest = sess - {op[1]}; out.append((None, rest, frozenset()) if not rest else (login, rest, frozenset(o for o in objs if o[2] != op[1])))
    return out

def culprit(history, init, ck):
    """the call(s) whose response, if ignored, makes the history linearizable: list of (op kind, response class); [] if one or two calls do not suffice"""
    def cls(i, j):
        m, st, a, b = history[i][j]
        return m[0], (ck.rv(st['rv']) if st['rv'] != 0 else ('n=%s' % st.get('n') if m[0] == 'find' else 'state=%s' % st.get('state') if m[0] == 'info' else 'CKR_OK'))
    cands = [(i, j) for i, h in enumerate(history) for j, (m, st, a, b) in enumerate(h)]
    cands.sort(key=lambda ij: (history[ij[0]][ij[1]][1]['rv'] == 0, history[ij[0]][ij[1]][0][0] != 'find'))
    for c in cands:
        if linearizable(history, init, free={c}) is True: return [cls(*c)]
    for a in range(len(cands)):
        for b in range(a + 1, len(cands)):
            if linearizable(history, init, free={cands[a], cands[b]}, budget=50000) is True: return [cls(*cands[a]), cls(*cands[b])]
    return []

def linearizable(history, init, budget=200000, free=None):
    """history: list of per-thread lists of (op, res, t_call, t_ret).  Wing-Gong search with memoisation.  Returns True / False / None (budget)."""
    n = len(history); lens = [len(h) for h in history]; failed = set(); steps = [0]
    sys.setrecursionlimit(10000)
    def search(pos, state):
        if all(pos[i] == lens[i] for i in range(n)): return True
        key = (pos, state)
        if key in failed: return False
        steps[0] += 1
        if steps[0] > budget: raise TimeoutError
        front = [(i, history[i][pos[i]]) for i in range(n) if pos[i] < lens[i]]
        min_ret = min(f[1][3] for f in front)
        for i, (op, res, tc, tr) in front:
            if tc > min_ret: continue       # some other pending operation returned before this one was called
            for st2 in (lin_free(state, op) if (free and (i, pos[i]) in free) else lin_step(state, op, res)):
                p2 = pos[:i] + (pos[i] + 1,) + pos[i + 1:]
                if search(p2, st2): return True
        failed.add(key); return False
    try: return search(tuple([0] * n), init)
    except TimeoutError: return None

def lin_job(job):
    from ck import CK
    ck = CK(job['hdr']); part = Part(); seed = job['seed']; rnd = random.Random(seed); nth = job['threads']; d = os.path.join(job['scratch'], f'lin-{seed}'); shutil.rmtree(d, ignore_errors=True); os.makedirs(d)
    x = None
    try:
        x, slot, s0 = setup(job['paths'], ck, 'asan', d, job['locking'], seed, yield_p=job.get('yield_p', 0.2), yield_us=job.get('yield_us', 120))
        for hno in range(job['histories']):
            # every thread: its own session; ops on session objects with a few SHARED labels so that threads interact
            labels = [b'L%d-%d' % (hno, i) for i in range(3)]; scripts = []; metas = []
            free = job.get('variant') in ('free', 'handoff', 'login-race')
            for t in range(nth):
              S = []; M = []
              if job.get('variant') == 'handoff':
                # directed: every thread repeatedly opens a session, logs in, looks at its state, creates a private object and closes again; the token has no
                # other session, so "closing the last session logs the token out" races with the next thread's open + login
                for sk in range(3):
                    sid = f'{hno}:{t}:{sk}'; S.append({'fn': 'C_OpenSession', 'slot': slot}); M.append(('open', sid)); sref = '$%d.h' % (len(S) - 1)
                    S.append({'fn': 'C_Login', 's': sref, 'user': 1, 'pin': USER.hex()}); M.append(('login',))
                    S.append({'fn': 'C_GetSessionInfo', 's': sref}); M.append(('info',))
                    if rnd.random() < 0.5:
                        lab = b'H%d-%d-%d' % (hno, t, sk); S.append({'fn': 'C_CreateObject', 's': sref, 'tmpl': x.T({'CKA_CLASS': ck.CKO_DATA, 'CKA_TOKEN': False, 'CKA_PRIVATE': True, 'CKA_LABEL': lab, 'CKA_VALUE': b'x'})}); M.append(('create', lab, True, sid))
                    S.append({'fn': 'C_CloseSession', 's': sref}); M.append(('close', sid))
                    for _ in range(rnd.randrange(0, 4)): S.append({'fn': 'C_GetTokenInfo', 'slot': slot}); M.append(None)      # time without any session, so that another thread's close really is the last one
                scripts.append(S); metas.append(M); continue
              if job.get('variant') == 'login-race':
                # directed: nobody is logged in; every thread has its own read-write session and tries to log in (user or SO), looks, logs out, looks: at most one login can be in force
                sid = f'{hno}:{t}:0'; S.append({'fn': 'C_OpenSession', 'slot': slot}); M.append(('open', sid)); sref = '$0.h'
                for rep in range(2):
                    who = rnd.choice('US'); S.append({'fn': 'C_Login', 's': sref, 'user': 1 if who == 'U' else 0, 'pin': (USER if who == 'U' else SO).hex()}); M.append(('login', who))
                    S.append({'fn': 'C_GetSessionInfo', 's': sref}); M.append(('info',))
                    if rnd.random() < 0.7: S.append({'fn': 'C_Logout', 's': sref}); M.append(('logout',)); S.append({'fn': 'C_GetSessionInfo', 's': sref}); M.append(('info',))
                S.append({'fn': 'C_CloseSession', 's': sref}); M.append(('close', sid))
                scripts.append(S); metas.append(M); continue
              for sk in range(rnd.randrange(1, 3) if free else 1):
                sid = f'{hno}:{t}:{sk}'; S.append({'fn': 'C_OpenSession', 'slot': slot}); M.append(('open', sid)); sref = '$%d.h' % (len(S) - 1); mine = {}
                for _ in range(rnd.randrange(2, 5) if free else rnd.randrange(4, 8)):
                    c = rnd.random()
                    if free and c >= 0.7: c = 0.7 + (c - 0.7) * 1.0 if rnd.random() < 0.4 else rnd.choice([0.85, 0.95])   # more login / info in the free variant
                    if c < 0.3:
                        lab = rnd.choice(labels)
                        if lab in mine or any(m is not None and m[0] == 'create' and lab == m[1] for mm in metas for m in mm): c = 0.5   # a label is created at most once per history (unique tags)
                        else:
                            priv = rnd.random() < 0.5; S.append({'fn': 'C_CreateObject', 's': sref, 'tmpl': x.T({'CKA_CLASS': ck.CKO_DATA, 'CKA_TOKEN': False, 'CKA_PRIVATE': priv, 'CKA_LABEL': lab, 'CKA_VALUE': b'x'})}); M.append(('create', lab, priv, sid)); mine[lab] = len(S) - 1; continue
                    if c < 0.6:
                        lab = rnd.choice(labels); S.append({'fn': 'C_FindObjectsInit', 's': sref, 'tmpl': x.T({'CKA_LABEL': lab})}); M.append(None)
                        S.append({'fn': 'C_FindObjects', 's': sref, 'max': 4}); M.append(('find', lab)); S.append({'fn': 'C_FindObjectsFinal', 's': sref}); M.append(None)
                    elif c < 0.7 and mine:
                        lab = rnd.choice(list(mine)); S.append({'fn': 'C_DestroyObject', 's': sref, 'o': '$%d.h' % mine[lab]}); M.append(('destroy', lab)); del mine[lab]
                    elif c < 0.8: S.append({'fn': 'C_Logout', 's': sref}); M.append(('logout',))
                    elif c < 0.9: S.append({'fn': 'C_Login', 's': sref, 'user': 1, 'pin': USER.hex()}); M.append(('login',))
                    else: S.append({'fn': 'C_GetSessionInfo', 's': sref}); M.append(('info',))
                S.append({'fn': 'C_CloseSession', 's': sref}); M.append(('close', sid))
              scripts.append(S); metas.append(M)
            # known initial state: user logged in, only the setup session, no session objects
            if free:
                if s0 is not None: x.call('C_CloseSession', s=s0); s0 = None      # no session is held by the driver: the last close of a thread logs the token out
            else: x.call('C_Logout', s=s0); assert x.call('C_Login', s=s0, user=1, pin=USER.hex())['rv'] == 0
            r = x.raw({'fn': 'threads', 'scripts': scripts, 'timeout': 300})
            hist = []
            for t in range(nth):
                H = []
                for st, m in zip(r['results'][t], metas[t]):
                    if m is None:      # FindObjectsInit/Final are part of the find that follows / precedes; the search result is fixed at Init
                        continue
                    H.append((m, st, st['t_call'], st['t_ret']))
                # the find's linearization point is its Init: use the Init's call time and the FindObjects' return time
                res_t = r['results'][t]; j = 0
                for idx, m in enumerate(metas[t]):
                    if m is not None and m[0] == 'find':
                        pos = [q for q, hh in enumerate(H) if hh[0] is m][0]; H[pos] = (m, res_t[idx], res_t[idx - 1]['t_call'], res_t[idx]['t_ret'])
                        if res_t[idx - 1]['rv'] != 0: H[pos] = (m, dict(res_t[idx], rv=res_t[idx - 1]['rv']), res_t[idx - 1]['t_call'], res_t[idx]['t_ret'])
                hist.append(H)
            init = (None, frozenset(), frozenset()) if free else ('U', frozenset(['setup']), frozenset())
            verdict = linearizable(hist, init)
            nops = sum(len(h) for h in hist)
            if verdict is None: part.inconc(f'linearizability search budget exceeded (seed {seed} history {hno})')
            elif verdict is False:
                cu = culprit(hist, init, ck)
                wit = {'seed': seed, 'variant': job.get('variant'), 'history': [[(m, {'rv': ck.rv(st['rv']), 'n': st.get('n'), 'state': st.get('state')}, a, b) for (m, st, a, b) in h] for h in hist]}
                if not cu: part.inconc(f'a non-linearizable history could not be attributed to one or two calls (seed {seed} history {hno})'); part.observe('non-linearizable history with more than two unexplained calls', wit, cap=2)
                for c in cu: part.violation(f'non-linearizable|session-objects+login|unexplained-call={c[0]}:{c[1]}', 'no sequential order of the calls explains the observed results; ignoring the response of the named call makes the history linearizable', wit)
            part.case(('lin', nth, tuple(sorted(collections.Counter(m[0] for h in hist for (m, _, _, _) in h).items()))), nontrivial=verdict is not None, sample={'lin_history_ops': nops, 'threads': nth, 'verdict': verdict} if hno == 0 and seed % 7 == 0 else None)
            part.count('lin_histories', 1); part.count('lin_ops', nops)
            # clean up: session objects of the history died with their sessions; make sure nothing is left
        x.call('C_Finalize'); x.close(); x = None
    except AssertionError as e: part.inconc(f'lin setup failed: {e!r}')
    except Died as ex: part.violation(f'crash|lin-histories|{ex.kind()}@{ex.where()}', 'the library crashed under concurrent use', {'seed': seed, 'stderr': (ex.stderr_tail or '')[-2000:]})
    except Hang: part.violation('deadlock-or-hang|lin-histories', 'no reply from the threads run within the watchdog', {'seed': seed})
    finally:
        if x is not None: x.kill()
        shutil.rmtree(d, ignore_errors=True)
    return part

def dispatch(j): return stress_job(j) if j['kind'] == 'stress' else lin_job(j)

def run(ctx):
    ctx.need('asan', 'tsan')
    try: base = set(json.load(open(f'{VERIF}/vlib/race_baseline.json'))['keys'])
    except FileNotFoundError: base = set()
    jobs = []; common = dict(paths=ctx.paths, hdr=ctx.paths['asan']['hdr'], scratch=ctx.scratch, race_baseline=base)
    seeds = ctx.q(4, 12); tcounts = ctx.q([8], [2, 4, 8, 16])
    def ITERS(wl): return ctx.q(10, 20) if wl.startswith('keygen') or wl in ('two-token-logins', 'destroy-set-race') else ctx.q(15, 30) if wl in ('shared-key', 'two-token') else ctx.q(25, 40)
    for wl in WORKLOADS:
        for nth in tcounts:
            for i in range(seeds):
                locking = 'cb' if i % 2 == 0 else 'os'
                jobs.append(dict(common, kind='stress', cfg='asan', wl=wl, threads=nth, seed=ctx.seed * 1000 + i, iters=ITERS(wl), locking=locking, yield_p=[0.2, 0.03][(i // 2) % 2], yield_us=[120, 8000][(i // 2) % 2],
                                 pre=[None, None, ('null',), ('none',), ('os',), ('null', 'os')][(i + WORKLOADS.index(wl)) % 6]))
        if wl in ('first-find', 'destroy-race', 'destroy-set-race'):      # windows a few instructions wide between two critical sections: callbacks with stalls in every run, and more runs (they are short)
            for j in jobs:
                if j.get('wl') == wl: j.update(locking='cb')
            for i in range(ctx.q(6, 24)):
                jobs.append(dict(common, kind='stress', cfg='asan', wl=wl, threads=[8, 6, 12][i % 3], seed=ctx.seed * 1000 + 300 + i, iters=ctx.q(25, 40), locking='cb', yield_p=[0.03, 0.5, 0.05][i % 3], yield_us=[8000, 40, 3000][i % 3]))
        for i in range(ctx.q(1, 6)):
            jobs.append(dict(common, kind='stress', cfg='tsan', wl=wl, threads=ctx.q(6, 8), seed=ctx.seed * 1000 + 500 + i, iters=max(4, ITERS(wl) // 3), locking='cb' if i % 2 == 0 else 'os'))
    for i in range(ctx.q(16, 64)):
        jobs.append(dict(common, kind='lin', threads=3 + (i % 2), seed=ctx.seed * 1000 + 900 + i, histories=ctx.q(25, 300), locking='cb' if i % 2 == 0 else 'os', variant=['held', 'login-race', 'free', 'handoff'][i % 4], yield_p=[0.2, 0.5][(i // 4) % 2], yield_us=[120, 1500][(i // 4) % 2]))
        if jobs[-1]['variant'] == 'handoff': jobs[-1].update(locking='cb', yield_p=0.04, yield_us=12000, histories=jobs[-1]['histories'] * 3)   # rare but long stalls at lock boundaries (one thread parked while the others run at full speed): finds atomicity windows a few instructions wide
    for part in pmap(dispatch, jobs, max(4, ctx.nproc // 2)): ctx.merge(part)
    lh = ctx.obs.get('lock-order hashes', {}); ctx.extra['distinct_lock_order_hashes'] = len(lh.get('examples', []))
    ctx.rule = ('one evaluation = one concurrent run (2-16 threads x 25-40 iterations of the workload mix) or one linearizability-checked history (3-4 threads x 5-9 calls); '
                'distinct = (build, workload, thread count, locking mode, hash of the observed (mutex, thread) acquisition order) resp. (history shape); non-trivial when at least two threads ran; '
                'workloads: ' + ', '.join(WORKLOADS) + ' (shared-key: all threads sign / encrypt / MAC with the same private token keys, results compared with refcrypt; keygen: C_GenerateKey / C_GenerateKeyPair / C_WrapKey / C_UnwrapKey per thread; two-token: half of the threads churn sessions and logins on a second token; two-token-logins: PIN verifications of two tokens at the same time; destroy-set-race: one thread destroys token objects that the others are rewriting, judged after a re-initialisation); oracles: crash/ASan, watchdog, unexplained failures, own-object read-back, thread-local results vs hashlib/hmac, '
                'unique-label search counts, handle uniqueness, quiescent conservation, TSan race locations vs baseline, Wing-Gong linearizability search')
    ctx.assumptions += ['schedules are sampled (seeded yields at every application mutex callback), not enumerated', 'thread schedules cannot be replayed deterministically (no rr); the witness is the recorded history and the seeds',
                        'file back-end only, as the property says']
if __name__ == '__main__': main('C18', run, min_evaluations=20, min_distinct=10)
