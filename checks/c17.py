#!/usr/bin/env python3
"""C17 - no input makes the library crash, corrupt memory or kill the host process.

Oracle = sanitizers + interposers, nothing is modelled: an ASan report, a fatal signal, exit/abort/assert/terminate
raised inside a C_* call (all surface as `Died`), a UBSan diagnostic of category null-pointer / bounds / object-size,
a return value that is not a CKR_* constant, a reproduced hang.  Two workloads: (a) hostile API sequences over all 68
entry points on a deep state, (b) structure-aware mutation of every file the library reads, each followed by a fixed
recovery probe in a fresh process.  One executor process per sequence / per mutated file."""
import sys, os, json, random, shutil, struct, sqlite3, time, re, select
sys.path.insert(0, os.path.join(os.path.dirname(os.path.abspath(__file__)), '..', 'vlib'))
from harness import main, Part, pmap, SAN_ENV, VERIF
from p11client import Exec, Died, Hang, mkconf
from ck import CK
import keys_c17 as K
import fuzzgen as FG

# the sanitizer keeps the fatal signals (the interposer's own handler would report a bare 'SIGSEGV' without a stack)
C17_ENV = dict(SAN_ENV, ASAN_OPTIONS=SAN_ENV['ASAN_OPTIONS'] + ':handle_segv=2:handle_sigbus=2:handle_sigfpe=2:handle_sigill=2')
SO_PIN = [b'so-pin-tok0', b'so-pin-tok1']; USER_PIN = [b'user-pin-0', b'user-pin-1']
TIMEOUT = 40

# ------------------------------------------------------------------------------------------------ plumbing
def new_exec(env, d, backend=None, conf=None):
    p = env['paths'][env['cfg']]
    if conf is None: conf = mkconf(d, backend or env['backend'])
    n = len([f for f in os.listdir(d) if f.startswith('stderr')])
    try: x = Exec(p['exe'], p['lib'], conf, env['ck'], env=C17_ENV, stderr=f'{d}/stderr{n}.log', trace=f'{d}/trace{n}.jsonl')
    except OSError as e: raise Lost('executor could not be started (concurrent re-link?): %r' % (e,))
    x.timeout = TIMEOUT
    return x

TMPL_VALUE = {'bytes-value', 'wrong-size', 'null-value', 'ulong-value', 'date', 'mechanism-list'}
def key_class(cls):
    """input class as it appears in a finding's KEY: template operators are folded into value-level / structure-level hostility
    (the operator itself stays in the witness and in the coverage counts)"""
    out = []
    for t in cls.split('+'):
        if t.startswith('tmpl=') and not t.startswith('tmpl=get='): t = 'tmpl=hostile-values' if t[5:] in TMPL_VALUE else 'tmpl=hostile-structure'
        if t not in out: out.append(t)
    return '+'.join(out)
def ubsan_class(msg):
    """the UBSan categories that ARE one of the failures the property names; everything else is an observation"""
    m = msg.lower()
    if 'null pointer' in m and 'misaligned' not in m and ('load of' in m or 'store to' in m or 'member access' in m or 'member call' in m): return 'null-pointer'
    if 'out of bounds' in m: return 'bounds'
    if 'insufficient space for an object' in m: return 'object-size'
    return None

SKIP_FRAMES = ('__asan', '__interceptor', '__sanitizer', '__ubsan', 'operator', 'std::', '__GI_', '_IO_', 'malloc', 'free', 'mem', 'str', '__pthread_kill', 'pthread_kill', 'raise', 'abort', '__assert', '__cxa', '__gnu_cxx', '_Unwind', 'gsignal', '__libc')
def full_stderr(e):
    p = getattr(e, 'stderr_path', None)
    try:
        with open(p, 'rb') as f: return f.read()[-400000:].decode('latin-1')
    except (OSError, TypeError): return e.stderr_tail or ''
def report_head(e, n=3000):
    """the informative part of the sanitizer report (header + stack), not the shadow-memory dump at its end"""
    t = full_stderr(e); i = t.rfind('ERROR: AddressSanitizer'); return t[max(0, i - 10):i + n] if i >= 0 else t[-n:]
def death_sig(e):
    """`<death kind>@<first library frame or assert location>`"""
    note = e.note or {}; died = str(note.get('died', '')); t = full_stderr(e); i = t.rfind('ERROR: AddressSanitizer'); t = t[i:] if i >= 0 else t[-6000:]
    if died.startswith('assert:'): return 'assert@' + died[7:].split('/')[-1]
    m = re.search(r'ERROR: AddressSanitizer: ([\w-]+)', t)
    kind = 'asan:' + m.group(1) if m else e.kind()
    if kind == 'asan:ABRT': kind = 'abort'
    where = '?'; fallback = None
    for m in re.finditer(r'^\s*#\d+ 0x[0-9a-f]+ in (.*)$', t, re.M):
        line = m.group(1); f = line.split(' /')[0].split('(')[0].strip()
        if '/src/lib/' in line and '/main.cpp' not in line and not f.startswith(SKIP_FRAMES): where = f; break     # first frame inside SoftHSM itself
        if fallback is None and not f.startswith(SKIP_FRAMES) and '/exec/p11x.cpp' not in line: fallback = f
    if where == '?' and fallback: where = fallback
    return f'{kind}@{where}'

def cpu_ticks(pid):
    try: f = open('/proc/%d/stat' % pid).read().rsplit(')', 1)[1].split(); return int(f[11]) + int(f[12])
    except (OSError, IndexError, ValueError): return 0

class Lost(Exception):
    """the executor could not even load the library (e.g. another check is rebuilding the cache right now): harness trouble, never a verdict"""

class Monitor:
    """per-executor oracle: CK_RV validity, UBSan diagnostics attributed to the call that produced them"""
    def __init__(s, x, ck, part): s.x = x; s.ck = ck; s.part = part; s.pos = 0; s.reqs = []
    def new_ubsan(s):
        try:
            with open(s.x.stderr_path, 'rb') as f: f.seek(s.pos); t = f.read(); s.pos += len(t)
        except OSError: return []
        return [(m.group(3), m.group(1).split('/src/')[-1] + ':' + m.group(2)) for m in re.finditer(r'^(\S+?):(\d+):\d+: runtime error: (.*)$', t.decode('latin-1'), re.M)]
    def raw(s, req):
        """Exec.raw with a watchdog that looks before it kills: a process that is still burning CPU is computing (huge operands),
        one that is idle is stuck; only the latter is the hang the property is about"""
        x = s.x; x.n += 1; req = dict(req); req.setdefault('id', x.n); x.calls += 1
        def died(note=None):
            rc = x.p.wait(); e = Died(note, rc, x.stderr_tail(), req.get('fn')); e.stderr_path = x.stderr_path
            if note is None and rc == 2 and ('dlopen:' in (e.stderr_tail or '') or 'no function list' in (e.stderr_tail or '')): return Lost((e.stderr_tail or '')[-200:])
            return e
        try: x.p.stdin.write((json.dumps(req) + '\n').encode())
        except (BrokenPipeError, OSError): raise died()
        fd = x.p.stdout.fileno(); t0 = time.time()
        while b'\n' not in x.buf:
            rd, _, _ = select.select([fd], [], [], 2.0)
            if rd:
                chunk = os.read(fd, 1 << 20)
                if not chunk: raise died()
                x.buf += chunk; continue
            if time.time() - t0 > TIMEOUT:
                busy = cpu_ticks(x.p.pid); time.sleep(0.5); busy = cpu_ticks(x.p.pid) - busy > 5
                x.kill(); raise Hang('busy' if busy else 'idle')
        line, x.buf = x.buf.split(b'\n', 1); r = json.loads(line)
        if 'died' in r: raise died(r)
        return r
    def call(s, req, cls):
        """send one request; returns the reply.  Raises Died/Hang.  Records violations that do not kill the process."""
        s.reqs.append(req); s.part.count('fn:' + str(req.get('fn'))); r = s.raw(req); rv = r.get('rv', -1)
        if 'error' in r and rv == -1: s.part.inconc('harness: executor rejected a request: %s %s' % (r['error'], json.dumps(req)[:300])); r['rvname'] = 'HARNESS_ERROR'; return r
        r['rvname'] = s.ck.rv(rv)
        if r['rvname'].startswith('CKR_?'): s.part.violation(f"{req['fn']}|{key_class(cls)}|invalid-rv", 'a return value that is not a CKR_* constant', {'rv': rv, 'request': clip(req)})
        for msg, loc in s.new_ubsan():
            c = ubsan_class(msg)
            if c: s.part.violation(f"{req['fn']}|{key_class(cls)}|ubsan:{c}@{loc}", 'UBSan: ' + msg[:160], {'request': clip(req), 'location': loc})
            elif not loc.startswith('/verif/exec'): s.part.observe('ubsan-observation ' + loc, re.sub(r'0x[0-9a-f]+', '0x..', msg)[:140])
        return r

def clip(o, n=160):
    """shorten long hex strings for witnesses (the full request is in the trace / regenerated from the seed)"""
    if isinstance(o, str): return o if len(o) <= n else o[:n] + '...(%d chars)' % len(o)
    if isinstance(o, dict): return {k: clip(v, n) for k, v in o.items()}
    if isinstance(o, list): return [clip(v, n) for v in o[:40]] + (['...(%d items)' % len(o)] if len(o) > 40 else [])
    return o

# ------------------------------------------------------------------------------------------------ golden token directories
GOLDEN_TOK0 = [k for k in K.kinds() if k != 'des' and not k.split(':')[0].endswith('b')]     # the '...b' twins are only needed as peer points, not as objects
GOLDEN_FILE_TOK0 = ['aes128', 'des3', 'generic32', 'rsa1024:pub', 'rsa1024:priv', 'rsa2048:priv', 'ec_p256:pub', 'ec_p256:priv', 'ec_p384:priv', 'ed25519:pub', 'ed25519:priv',
                    'dsa1024:pub', 'dsa1024:priv', 'dh1024:pub', 'dh1024:priv', 'x509', 'data', 'dsa-params']
GOLDEN_TOK1 = ['aes128', 'generic32', 'rsa1024:pub', 'rsa1024:priv', 'ec_p256:priv', 'data', 'x509']
def build_golden(env, d, small=False):
    """two initialised tokens; token 0 holds every object kind as PRIVATE token objects plus public copies of a few,
    token 1 holds a few public objects.  Labels are the kind names."""
    x = new_exec(env, d); ck = env['ck']
    def ok(r): assert r['rv'] == 0, r; return r
    ok(x.call('C_Initialize'))
    for ti in range(2):
        slot = x.call('C_GetSlotList', count=16)['slots'][-1]
        ok(x.call('C_InitToken', slot=slot, pin=SO_PIN[ti].hex(), label=(b'golden%d' % ti).hex()))
        s = ok(x.call('C_OpenSession', slot=slot))['h']
        ok(x.call('C_Login', s=s, user=0, pin=SO_PIN[ti].hex())); ok(x.call('C_InitPIN', s=s, pin=USER_PIN[ti].hex())); ok(x.call('C_Logout', s=s))
        ok(x.call('C_Login', s=s, user=1, pin=USER_PIN[ti].hex()))
        for kind in ((GOLDEN_FILE_TOK0 if small else GOLDEN_TOK0) if ti == 0 else (GOLDEN_TOK1[:4] if small else GOLDEN_TOK1)):
            ok(x.call('C_CreateObject', s=s, tmpl=x.T(K.resolve(ck, K.template(kind, token=True, private=(ti == 0), sensitive=(ti == 0 and kind.endswith(':priv')))))))
        if ti == 0:
            for kind in ('aes256', 'rsa2048:pub', 'ec_p256:pub', 'data', 'x509', 'generic64')[:(3 if small else 6)]:
                ok(x.call('C_CreateObject', s=s, tmpl=x.T(K.resolve(ck, K.template(kind, label=kind + '/public', token=True, private=False)))))
            # one object with nested templates, an allowed-mechanism list and dates: the attribute-map / mechanism-set encodings exist on disk
            ok(x.call('C_CreateObject', s=s, tmpl=x.T(K.resolve(ck, K.template('aes192', label='aes192/rich', token=True, private=False, extra=[
                ('CKA_WRAP_TEMPLATE', [('CKA_CLASS', ck.CKO_SECRET_KEY), ('CKA_EXTRACTABLE', True), ('CKA_LABEL', b'inner')]), ('CKA_UNWRAP_TEMPLATE', [('CKA_SENSITIVE', False)]),
                ('CKA_ALLOWED_MECHANISMS', [ck.CKM_AES_CBC, ck.CKM_AES_CBC_PAD, ck.CKM_AES_KEY_WRAP_PAD, ck.CKM_AES_ECB]), ('CKA_START_DATE', b'20200101'), ('CKA_END_DATE', b'20991231')])))))
        ok(x.call('C_CloseSession', s=s)); x.call('C_GetSlotList', null=True)
    ok(x.call('C_Finalize')); x.close()
    for f in os.listdir(d):
        if f.startswith(('stderr', 'trace')): os.unlink(os.path.join(d, f))

def clone_golden(env, d):
    os.makedirs(d, exist_ok=True); shutil.copytree(os.path.join(env['golden'], 'tokens'), os.path.join(d, 'tokens'), symlinks=True)
    # every other case runs with log.level = DEBUG: the arguments of every log message the case reaches are then really formatted (with ERROR most messages return before vsnprintf)
    global _CLONES; _CLONES += 1
    return mkconf(d, env['backend'], 'log.level = DEBUG\n' if _CLONES % 2 else '')
_CLONES = 0

# ------------------------------------------------------------------------------------------------ (a) API fuzz
def deep_state(mon, env, rnd, light=False):
    """well-formed prologue: sessions on both tokens, user logged in on token 0, handles of every token object,
    session copies of a sample of kinds, a destroyed object and a closed session (stale handles)"""
    ck = env['ck']; st = FG.FState(); c = lambda fn, **kw: mon.call(dict(fn=fn, **kw), 'setup')
    c('C_Initialize', locking=rnd.choice(['os', 'none']))
    st.slots = c('C_GetSlotList', count=16).get('slots', [])
    toks = []
    for sl in st.slots:   # token order by label, not by slot id (slot ids come from random serials)
        ti = c('C_GetTokenInfo', slot=sl)
        if ti['rv'] == 0 and bytes.fromhex(ti['label']).startswith(b'golden'): toks.append((bytes.fromhex(ti['label'])[:7], sl))
    free = [sl for sl in st.slots if sl not in [t[1] for t in toks]]
    st.slots = [sl for _, sl in sorted(toks)] + free
    for ti in range(2): st.pins[('so', ti)] = SO_PIN[ti]; st.pins[('user', ti)] = USER_PIN[ti]
    if len(st.slots) < 3: return st
    S0 = c('C_OpenSession', slot=st.slots[0], flags=6)['h']; S1 = c('C_OpenSession', slot=st.slots[0], flags=4)['h']; S2 = c('C_OpenSession', slot=st.slots[1], flags=6)['h']
    st.sessions = {S0: {'ti': 0, 'rw': True}, S1: {'ti': 0, 'rw': False}, S2: {'ti': 1, 'rw': True}}
    c('C_Login', s=S0, user=1, pin=USER_PIN[0].hex())
    if light or rnd.random() < 0.5: c('C_Login', s=S2, user=1, pin=USER_PIN[1].hex())
    for S, ti in ((S0, 0), (S2, 1)):
        if c('C_FindObjectsInit', s=S, tmpl=[])['rv'] != 0: continue
        hs = []
        while True:
            r = c('C_FindObjects', s=S, max=64)
            if r['rv'] != 0 or not r.get('objs'): break
            hs += r['objs']
        c('C_FindObjectsFinal', s=S)
        for h in hs:
            r = c('C_GetAttributeValue', s=S, o=h, tmpl=[{'t': ck.CKA_LABEL, 'buf': 64}])
            lab = bytes.fromhex(r['tmpl'][0].get('data', '')).decode('latin-1') if r['rv'] == 0 else None
            st.objs.append(FG.Obj(h, lab.split('/')[0] if lab else None, ti, token=True))
    x = mon.x
    if light: return st
    for kind in rnd.sample(K.kinds(), 8):
        r = c('C_CreateObject', s=S0, tmpl=x.T(K.resolve(ck, K.template(kind, sensitive=rnd.random() < 0.3))))
        if r['rv'] == 0: st.objs.append(FG.Obj(r['h'], kind, 0))
    r = c('C_CreateObject', s=S0, tmpl=x.T(K.resolve(ck, K.template('aes128', label='doomed'))))
    if r['rv'] == 0: c('C_DestroyObject', s=S0, o=r['h']); st.stale.append(r['h'])
    r = c('C_OpenSession', slot=st.slots[0], flags=6)
    if r['rv'] == 0: c('C_CloseSession', s=r['h']); st.closed.append(r['h'])
    return st

def epilogue(mon, env, st):
    """well-formed calls after the hostile ones: 'a later well-formed call must not crash'"""
    ck = env['ck']; c = lambda fn, **kw: mon.call(dict(fn=fn, **kw), 'well-formed-after-hostile')
    if c('C_GetInfo')['rvname'] == 'CKR_CRYPTOKI_NOT_INITIALIZED': c('C_Initialize')
    sl = c('C_GetSlotList', count=16).get('slots', [])
    for slot in sl[:3]:
        c('C_GetTokenInfo', slot=slot); r = c('C_OpenSession', slot=slot, flags=6)
        if r['rv'] != 0: continue
        S = r['h']; c('C_GetSessionInfo', s=S)
        for pin in USER_PIN + [b'new-user-pin']:
            if c('C_Login', s=S, user=1, pin=pin.hex())['rvname'] in ('CKR_OK', 'CKR_USER_ALREADY_LOGGED_IN'): break
        c('C_DigestInit', s=S, mech={'m': ck.CKM_SHA256, 'p': None}); c('C_Digest', s=S, data='616263', buf=32)
        if c('C_FindObjectsInit', s=S, tmpl=[])['rv'] == 0:
            hs = c('C_FindObjects', s=S, max=128).get('objs', []); c('C_FindObjectsFinal', s=S)
            for h in hs:
                r = c('C_GetAttributeValue', s=S, o=h, tmpl=[{'t': ck.CKA_CLASS, 'buf': 8}, {'t': ck.CKA_KEY_TYPE, 'buf': 8}, {'t': ck.CKA_LABEL, 'buf': 64}, {'t': ck.CKA_VALUE, 'buf': 4096}])
                e = r.get('tmpl') or [{}, {}]
                if e[0].get('data') == struct.pack('<Q', ck.CKO_SECRET_KEY).hex() and e[1].get('data') == struct.pack('<Q', ck.CKK_AES).hex():
                    if c('C_EncryptInit', s=S, mech={'m': ck.CKM_AES_CBC_PAD, 'p': {'hex': '00' * 16}}, key=h)['rv'] == 0: c('C_Encrypt', s=S, data='00' * 20, buf=64)
                elif e[0].get('data') == struct.pack('<Q', ck.CKO_PRIVATE_KEY).hex() and e[1].get('data') == struct.pack('<Q', ck.CKK_RSA).hex():
                    if c('C_SignInit', s=S, mech={'m': ck.CKM_SHA256_RSA_PKCS, 'p': None}, key=h)['rv'] == 0: c('C_Sign', s=S, data='616263', buf=512)
        c('C_CloseAllSessions', slot=slot)
    c('C_Finalize')

def canonical_death(env, e, fn, tags, prefix, base, edits, untagged='well-formed'):
    """canonical key `<entry point>|<input class>|<death kind>@<first library frame>`; with several hostile edits the
    input class is found by ablation: the request prefix is replayed in a fresh process on a fresh clone and the base
    request is sent with ONE edit at a time; the first edit that reproduces the same death names the class."""
    sig = death_sig(e)
    if edits:   # first the base request WITHOUT any edit (the cause may be an earlier call), then one edit at a time
        for tag, field, val in [(None, None, None)] + (sorted(edits, key=lambda t: t[0]) if len(edits) > 1 else []):
            d = os.path.join(env['scratch'], 'abl-%d-%d' % (os.getpid(), random.getrandbits(40))); x = None
            try:
                x = new_exec(env, d, conf=clone_golden(env, d)); m2 = Monitor(x, env['ck'], Part())
                for q in prefix: m2.raw(q)
                m2.raw(FG.Gen.apply(base, [(tag, field, val)] if tag else []))
            except Died as e2:
                if death_sig(e2) == sig: tags = [tag] if tag else []; break
            except Hang: pass
            finally:
                if x: x.kill()
                shutil.rmtree(d, ignore_errors=True)
    cls = '+'.join(tags) if tags else untagged
    return f'{fn}|{key_class(cls)}|{sig}', sig

def run_sequence(env, seed, part, keep=None):
    """one hostile sequence in its own executor on its own clone of the golden directory"""
    rnd = random.Random(seed); d = os.path.join(env['scratch'], 's%d' % seed); shutil.rmtree(d, ignore_errors=True)
    x = new_exec(env, d, conf=clone_golden(env, d)); mon = Monitor(x, env['ck'], part); cur = ('setup', [], None, [])
    ncalls = 0; hostile = 0; tagset = set(); depth = {}; hobjs = set(); copies = set(); opkey = {}
    try:
        st = deep_state(mon, env, rnd)
        gen = FG.Gen(rnd, env['ck'], st, K)
        for i in range(env['ncalls']):
            req, tags, base, edits = gen.next(); cur = (req['fn'], tags, base, edits); prefix_len = len(mon.reqs)
            r = mon.call(req, '+'.join(tags) if tags else ('well-formed-after-hostile' if hostile else 'well-formed'))
            gen.observe(req, r); ncalls += 1; hostile += bool(tags)
            if req['fn'] == 'C_CopyObject':
                if r['rv'] == 0 and r.get('h'): (hobjs if (req.get('o') in hobjs or any(t.startswith('tmpl=') for t in tags)) else copies).add(r['h'])
            elif tags and r['rv'] == 0: hobjs.update(h for h in (r.get('h'), r.get('hpub'), r.get('hpriv')) if h)
            if r['rv'] == 0 and req['fn'] in FG.INIT_OP and 'key' in req: opkey[req.get('s')] = req['key']
            for t in tags: tagset.add((req['fn'], t))
            part.count('rv:' + r['rvname'])
            if r['rv'] == 0 and req['fn'] in FG.INIT_OP: depth[FG.INIT_OP[req['fn']]] = 1
        cur = ('epilogue', [], None, [])
        epilogue(mon, env, st)
    except Died as e:
        fn = e.fn or cur[0]
        if cur[0] in ('setup', 'epilogue'): key, sig = f"{fn}|{'well-formed' if cur[0] == 'setup' else 'well-formed-after-hostile'}|{death_sig(e)}", None
        else:
            q = mon.reqs[-1]; uses = ({q.get(f) for f in ('o', 'key', 'wkey', 'ukey')} | ({opkey.get(q.get('s'))} if q.get('fn') in FG.DATA_PHASE else set())) - {None}
            # a death while USING an object that a hostile template made (or, on the db back-end, that C_CopyObject damaged) is classified by that, whatever else the dying call carried
            if uses & hobjs: key, sig = f'{fn}|use-of-hostile-object|{death_sig(e)}', None
            elif uses & copies: key, sig = f'{fn}|use-of-copied-object|{death_sig(e)}', None
            else: key, sig = canonical_death(env, e, fn, cur[1], mon.reqs[:-1], cur[2], cur[3], 'well-formed-after-hostile' if hostile else 'well-formed')
        part.violation(key, f'the library terminated the host process inside {fn} ({e.kind()})',
                       {'mode': 'api', 'seed': seed, 'cfg': env['cfg'], 'backend': env['backend'], 'ncalls': env['ncalls'], 'dying_request': clip(mon.reqs[-1] if mon.reqs else None),
                        'tags': cur[1], 'note': e.note, 'stderr_tail': report_head(e), 'trace_tail': [clip(q, 80) for q in mon.reqs[-8:]]})
        part.count('deaths')
    except Hang as hg:
        part.count('hangs'); x.kill()
        if str(hg) == 'busy': part.observe('long computation (CPU-busy past the %d s watchdog; not a hang)' % TIMEOUT, {'fn': cur[0], 'tags': cur[1], 'seed': seed}); part.count('busy_timeouts')
        elif True: part.violation(f'{cur[0]}|{key_class("+".join(cur[1])) or "well-formed"}|hang', 'a call did not return within %d s (reproduced)' % TIMEOUT, {'mode': 'api', 'seed': seed, 'cfg': env['cfg'], 'backend': env['backend'], 'ncalls': env['ncalls'], 'request': clip(mon.reqs[-1])})
    finally:
        x.kill()
    part.case(None); part.evaluations += ncalls - 1 if ncalls else 0
    for t in tagset: part.distinct.add(t)
    part.count('api_sequences'); part.count('api_calls', ncalls); part.count('api_hostile_calls', hostile); part.count('api_setup_calls', len(mon.reqs) - ncalls)
    for k in depth: part.count('api_seq_with_active_' + k)
    if len(part.samples) < 1: part.samples.append({'mode': 'api', 'seed': seed, 'cfg': env['cfg'], 'backend': env['backend'], 'requests': [clip(q, 64) for q in mon.reqs[-env['ncalls'] - 6:][:10]]})
    if keep is not None: keep['reqs'] = mon.reqs
    shutil.rmtree(d, ignore_errors=True)

# ------------------------------------------------------------------------------------------------ (a2) directed grids
# Deterministic enumerations of the hostile-input classes the property text names, so that coverage of e.g. "every parameter
# struct with field-wise hostile values" or "mismatched key types for every *Init" does not depend on random luck.  A cell is
# (tag, detail, function(E)); cells of one family are regenerated inside each worker (closures are not picklable) and sharded.
class CellEnv:
    def __init__(self, mon, env, st, tag): self.mon = mon; self.env = env; self.ck = env['ck']; self.st = st; self.tag = tag; self.x = mon.x; self.S = 0; self.haes = 0
    def c(self, fn, **kw): return self.mon.call(dict(fn=fn, **kw), self.tag)
    def k(self, kind, ti=0):
        for o in self.st.objs:
            if o.kind == kind and o.ti == ti and o.token: return o.h
        return 0
    def T(self, pairs): return self.x.T(K.resolve(self.ck, list(pairs)))
    def M(self, name, p=None): return {'m': self.ck[name], 'p': p}

KEY_MATERIAL = ['CKA_VALUE', 'CKA_MODULUS', 'CKA_PUBLIC_EXPONENT', 'CKA_PRIVATE_EXPONENT', 'CKA_PRIME_1', 'CKA_PRIME_2', 'CKA_EXPONENT_1', 'CKA_EXPONENT_2', 'CKA_COEFFICIENT',
                'CKA_PRIME', 'CKA_SUBPRIME', 'CKA_BASE', 'CKA_EC_PARAMS', 'CKA_EC_POINT']
def use_class(kind): kc = FG.kclass(kind); return 'des3' if kc in ('des2', 'des') else kc
SECRET_T = [('CKA_CLASS', 'CKO_SECRET_KEY'), ('CKA_TOKEN', False), ('CKA_SENSITIVE', False), ('CKA_EXTRACTABLE', True), ('CKA_ENCRYPT', True), ('CKA_DECRYPT', True), ('CKA_SIGN', True), ('CKA_VERIFY', True)]
PRIV_T = [('CKA_CLASS', 'CKO_PRIVATE_KEY'), ('CKA_TOKEN', False), ('CKA_SENSITIVE', False), ('CKA_EXTRACTABLE', True), ('CKA_SIGN', True), ('CKA_DECRYPT', True), ('CKA_DERIVE', True)]
UNWRAP_TARGETS = [('aes', SECRET_T + [('CKA_KEY_TYPE', 'CKK_AES')]), ('generic', SECRET_T + [('CKA_KEY_TYPE', 'CKK_GENERIC_SECRET')]), ('des3', SECRET_T + [('CKA_KEY_TYPE', 'CKK_DES3')]),
                  ('rsa-priv', PRIV_T + [('CKA_KEY_TYPE', 'CKK_RSA')]), ('ec-priv', PRIV_T + [('CKA_KEY_TYPE', 'CKK_EC')]), ('dsa-priv', PRIV_T + [('CKA_KEY_TYPE', 'CKK_DSA')]),
                  ('dh-priv', PRIV_T + [('CKA_KEY_TYPE', 'CKK_DH')]), ('ed-priv', PRIV_T + [('CKA_KEY_TYPE', 'CKK_EC_EDWARDS')])]
LEN_GRID = [0, 1, 7, 8, 9, 15, 16, 17, 24, 31, 32, 33, 63, 64, 65, 117, 118, 127, 128, 129, 245, 246, 255, 256, 257, 4096, 65536]
def len_class(n, block=16): return '0' if n == 0 else '1' if n == 1 else 'huge' if n > 4096 else 'aligned' if n % block == 0 else 'unaligned'
KEY_FOR = {'aes': 'aes128', 'des3': 'des3', 'des2': 'des2', 'des': 'des3', 'generic': 'generic32', 'rsa': 'rsa1024', 'dsa': 'dsa1024', 'ec': 'ec_p256', 'ed': 'ed25519', 'ec-priv': 'ec_p256:priv', 'ed-priv': 'ed25519:priv', 'dh-priv': 'dh1024:priv'}
def right_key(E, mech, side):
    k = FG.MECHS[mech][2][0] if FG.MECHS[mech][2] else None
    if k is None: return 0
    kind = KEY_FOR[k]
    return E.k(kind if (':' in kind or k in ('aes', 'des3', 'des2', 'des', 'generic')) else kind + ':' + side)
def wf_mech(E, h, mech):
    p = h.wf_param(FG.MECHS[mech][0]); p = {a: b for a, b in p.items() if not a.startswith('_')} if p else None
    return {'m': E.ck[mech], 'p': p}
def data_phase(E, kind, mech, n=32, buf=4096):
    """one-shot and multi-part continuation after a successful Init (kind: E/De/S/Ve)"""
    d = '5a' * n
    if kind == 'E': E.c('C_Encrypt', s=E.S, data=d, buf=buf)
    elif kind == 'De': E.c('C_Decrypt', s=E.S, data=d, buf=buf)
    elif kind == 'S': E.c('C_Sign', s=E.S, data=d, buf=buf)
    else: E.c('C_Verify', s=E.S, data=d, sig='a5' * 64)
def multi_phase(E, kind, n=32, buf=4096):
    d = '5a' * n
    if kind == 'E': E.c('C_EncryptUpdate', s=E.S, data=d, buf=buf); E.c('C_EncryptFinal', s=E.S, buf=buf)
    elif kind == 'De': E.c('C_DecryptUpdate', s=E.S, data=d, buf=buf); E.c('C_DecryptFinal', s=E.S, buf=buf)
    elif kind == 'S': E.c('C_SignUpdate', s=E.S, data=d); E.c('C_SignFinal', s=E.S, buf=buf)
    else: E.c('C_VerifyUpdate', s=E.S, data=d); E.c('C_VerifyFinal', s=E.S, sig='a5' * 64)
INIT_FN = {'E': 'C_EncryptInit', 'De': 'C_DecryptInit', 'S': 'C_SignInit', 'Ve': 'C_VerifyInit', 'SR': 'C_SignRecoverInit', 'VR': 'C_VerifyRecoverInit'}
DERIVE_T = SECRET_T + [('CKA_KEY_TYPE', 'CKK_GENERIC_SECRET'), ('CKA_DERIVE', True)]

def grid_cells(family, ck, seed, scale):
    rnd = random.Random(seed * 7919 + sum(map(ord, family))); cells = []; add = lambda tag, detail, f: cells.append((tag, detail, f))
    H = FG.Gen(rnd, ck, FG.FState(), K)     # value producers only
    draws = lambda n: max(1, int(n * scale))
    REP = [k for k in K.kinds() if scale > 1 or k in ('aes128', 'aes256', 'des3', 'des2', 'generic32', 'generic1', 'rsa1024:pub', 'rsa1024:priv', 'rsa2048:priv', 'ec_p256:pub', 'ec_p256:priv', 'ec_p521:pub', 'ec_p384:priv',
                                                     'ed25519:pub', 'ed25519:priv', 'dsa1024:pub', 'dsa1024:priv', 'dh1024:pub', 'dh1024:priv', 'x509', 'data', 'dsa-params', 'dh-params')]
    if family == 'damaged-key':
        for kind in REP:
            base = K.template(kind)
            for attr in [a for a, _ in base if a in KEY_MATERIAL]:
                for op in ('empty', 'missing', 'zero', 'truncated', 'extended', 'ones', 'one-byte'):
                    def f(E, kind=kind, attr=attr, op=op, base=base):
                        v = dict(base)[attr]
                        nv = {'empty': b'', 'zero': bytes(len(v)), 'truncated': v[:len(v) // 2], 'extended': v + b'\x01', 'ones': b'\xff' * len(v), 'one-byte': b'\x00'}.get(op)
                        t = [(a, (nv if a == attr else b)) for a, b in base if not (op == 'missing' and a == attr)]
                        r = E.c('C_CreateObject', s=E.S, tmpl=E.T(t))
                        if r['rv'] == 0: E.tag = 'use-of-hostile-object'; use_key(E.c, E.ck, E.S, r['h'], use_class(kind), E.haes); E.c('C_GetAttributeValue', s=E.S, o=r['h'], tmpl=[{'t': E.ck[a], 'buf': 4096} for a in ('CKA_CHECK_VALUE', 'CKA_VALUE_LEN', 'CKA_MODULUS_BITS', 'CKA_PUBLIC_KEY_INFO')])
                    add('use-of-hostile-object', f'{kind} {attr}={op}', f)
    elif family == 'copy-use':      # a well-formed C_CopyObject, then the copy is used like the original (the db back-end's copy is not the original: DESIGN section 4 row 11)
        for kind in [k for k in K.kinds() if k in GOLDEN_TOK0]:
            for tok in (False, True):
                def f(E, kind=kind, tok=tok):
                    r = E.c('C_CopyObject', s=E.S, o=E.k(kind), tmpl=E.T([('CKA_TOKEN', tok), ('CKA_LABEL', b'copy-of-' + kind.encode())]))
                    if r['rv'] == 0:
                        E.tag = 'use-of-copied-object'; use_key(E.c, E.ck, E.S, r['h'], use_class(kind), E.haes); E.c('C_GetAttributeValue', s=E.S, o=r['h'], tmpl=[{'t': E.ck[a], 'buf': 4096} for a in PROBE_ATTRS[:40]])
                        if tok: E.c('C_DestroyObject', s=E.S, o=r['h'])
                add('well-formed', f'{kind} token={tok}', f)
        for kind in ('rsa1024:pub', 'rsa1024:priv'):     # every way of using the copy, one per cell (a cell ends at its first death)
            for op in (('encrypt', 'encrypt-oaep', 'verify', 'verify-multi', 'wrap') if kind.endswith('pub') else ('sign', 'sign-multi', 'sign-pss', 'decrypt', 'unwrap')):
                def f(E, kind=kind, op=op):
                    r = E.c('C_CopyObject', s=E.S, o=E.k(kind), tmpl=E.T([('CKA_TOKEN', False)]))
                    if r['rv'] != 0: return
                    E.tag = 'use-of-copied-object'; h = r['h']; S = E.S; c = E.c; M = E.M; ck = E.ck; d = '5a' * 32
                    if op == 'encrypt' and c('C_EncryptInit', s=S, mech=M('CKM_RSA_PKCS'), key=h)['rv'] == 0: c('C_Encrypt', s=S, data=d, buf=512)
                    if op == 'encrypt-oaep' and c('C_EncryptInit', s=S, mech=M('CKM_RSA_PKCS_OAEP', {'oaep': {'hash': ck.CKM_SHA_1, 'mgf': ck.CKG_MGF1_SHA1, 'source': 1}}), key=h)['rv'] == 0: c('C_Encrypt', s=S, data=d, buf=512)
                    if op == 'verify' and c('C_VerifyInit', s=S, mech=M('CKM_SHA256_RSA_PKCS'), key=h)['rv'] == 0: c('C_Verify', s=S, data=d, sig='5a' * 128)
                    if op == 'verify-multi' and c('C_VerifyInit', s=S, mech=M('CKM_SHA256_RSA_PKCS'), key=h)['rv'] == 0: c('C_VerifyUpdate', s=S, data=d); c('C_VerifyFinal', s=S, sig='5a' * 128)
                    if op == 'wrap': c('C_WrapKey', s=S, mech=M('CKM_RSA_PKCS'), wkey=h, key=E.haes, buf=512)
                    if op == 'sign' and c('C_SignInit', s=S, mech=M('CKM_RSA_PKCS'), key=h)['rv'] == 0: c('C_Sign', s=S, data=d, buf=512)
                    if op == 'sign-multi' and c('C_SignInit', s=S, mech=M('CKM_SHA256_RSA_PKCS'), key=h)['rv'] == 0: c('C_SignUpdate', s=S, data=d); c('C_SignFinal', s=S, buf=512)
                    if op == 'sign-pss' and c('C_SignInit', s=S, mech=M('CKM_SHA256_RSA_PKCS_PSS', {'pss': {'hash': ck.CKM_SHA256, 'mgf': ck.CKG_MGF1_SHA256, 'slen': 32}}), key=h)['rv'] == 0: c('C_Sign', s=S, data=d, buf=512)
                    if op == 'decrypt' and c('C_DecryptInit', s=S, mech=M('CKM_RSA_PKCS'), key=h)['rv'] == 0: c('C_Decrypt', s=S, data='00' + '5a' * 127, buf=512)
                    if op == 'unwrap': c('C_UnwrapKey', s=S, mech=M('CKM_RSA_PKCS'), ukey=h, wrapped='00' + '5a' * 127, tmpl=E.T(UNWRAP_TARGETS[0][1]))
                add('well-formed', f'{kind} {op}', f)
    elif family == 'unwrap':
        mechs = [('CKM_AES_KEY_WRAP', None, 'aes128'), ('CKM_AES_KEY_WRAP_PAD', None, 'aes128'), ('CKM_AES_CBC_PAD', {'hex': '00' * 16}, 'aes128'), ('CKM_AES_CBC', {'hex': '00' * 16}, 'aes128'), ('CKM_DES3_CBC_PAD', {'hex': '00' * 8}, 'des3'),
                 ('CKM_DES3_CBC', {'hex': '00' * 8}, 'des3'), ('CKM_RSA_PKCS', None, 'rsa1024:priv'), ('CKM_RSA_PKCS_OAEP', {'oaep': {'hash': ck.CKM_SHA_1, 'mgf': ck.CKG_MGF1_SHA1, 'source': 1}}, 'rsa1024:priv'), ('CKM_AES_ECB', None, 'aes128'), ('CKM_AES_GCM', {'gcm': {'iv': '00' * 12, 'tagbits': 128}}, 'aes128')]
        for m, p, ukind in mechs:
            for n in LEN_GRID[:-1]:
                for fill in ('00', 'ff', '10', '01'):
                    def f(E, m=m, p=p, ukind=ukind, n=n, fill=fill):
                        for _, t in UNWRAP_TARGETS[:4] + UNWRAP_TARGETS[4:5]: E.c('C_UnwrapKey', s=E.S, mech=E.M(m, p), ukey=E.k(ukind), wrapped=fill * n, tmpl=E.T(t))
                    add('len:wrapped=' + len_class(n, 8), f'{m} {n}x{fill}', f)
        for m, p, ukind in mechs[:3] + mechs[4:5] + mechs[6:8]:
            for tk in ('aes128', 'generic64', 'rsa1024:priv', 'ec_p256:priv', 'dsa1024:priv', 'dh1024:priv', 'ed25519:priv', 'ec_p521:priv'):
                for mut in ('minus1', 'minus8', 'half', 'plus1', 'plus8', 'flip-first', 'flip-last', 'flip-mid', 'intact'):
                    def f(E, m=m, p=p, ukind=ukind, tk=tk, mut=mut):
                        tag0 = E.tag; wk = E.k(ukind.replace(':priv', ':pub')); r = E.c('C_WrapKey', s=E.S, mech=E.M(m, p), wkey=wk, key=E.k(tk), buf=8192)
                        if r['rv'] != 0: return
                        w = bytearray.fromhex(r['out']['data']); n = len(w)
                        if mut == 'minus1': w = w[:-1]
                        elif mut == 'minus8': w = w[:-8]
                        elif mut == 'half': w = w[:n // 2]
                        elif mut == 'plus1': w += b'\x00'
                        elif mut == 'plus8': w += bytes(8)
                        elif mut == 'flip-first' and n: w[0] ^= 0x80
                        elif mut == 'flip-last' and n: w[-1] ^= 1
                        elif mut == 'flip-mid' and n: w[n // 2] ^= 0x10
                        for name, t in UNWRAP_TARGETS:
                            r2 = E.c('C_UnwrapKey', s=E.S, mech=E.M(m, p), ukey=E.k(ukind), wrapped=bytes(w).hex(), tmpl=E.T(t))
                            if r2['rv'] == 0: E.tag = 'use-of-hostile-object'; use_key(E.c, E.ck, E.S, r2['h'], name, E.haes); E.tag = tag0
                    add('len:wrapped=' + ('intact-other-type' if mut == 'intact' else 'mutated-valid'), f'{m} {tk} {mut}', f)
    elif family == 'mechparam':
        for m, (pk, ops, ks) in FG.MECHS.items():
            seen = set()
            for _ in range(draws(70 if pk != 'none' else 6)):
                lab, p = H.hostile_param(pk); sig = json.dumps([lab, p], sort_keys=True)
                if sig in seen: continue
                seen.add(sig); p = {a: b for a, b in p.items() if not a.startswith('_')} if p else None; mech = {'m': ck[m], 'p': p}; tag = f'mechparam:{pk}:{lab}'
                def f(E, m=m, ops=ops, mech=mech):
                    if 'E' in ops:
                        for kind, side in (('E', 'pub'), ('De', 'priv')):
                            if E.c(INIT_FN[kind], s=E.S, mech=mech, key=right_key(E, m, side))['rv'] == 0: data_phase(E, kind, m)
                            if E.c(INIT_FN[kind], s=E.S, mech=mech, key=right_key(E, m, side))['rv'] == 0: multi_phase(E, kind)
                    if 'S' in ops:
                        for kind, side in (('S', 'priv'), ('Ve', 'pub')):
                            if E.c(INIT_FN[kind], s=E.S, mech=mech, key=right_key(E, m, side))['rv'] == 0: data_phase(E, kind, m)
                            if E.c(INIT_FN[kind], s=E.S, mech=mech, key=right_key(E, m, side))['rv'] == 0: multi_phase(E, kind)
                    if 'R' in ops:
                        E.c('C_SignRecoverInit', s=E.S, mech=mech, key=right_key(E, m, 'priv')); E.c('C_VerifyRecoverInit', s=E.S, mech=mech, key=right_key(E, m, 'pub'))
                    if 'D' in ops:
                        if E.c('C_DigestInit', s=E.S, mech=mech)['rv'] == 0: E.c('C_Digest', s=E.S, data='616263', buf=64)
                    if 'W' in ops:
                        r = E.c('C_WrapKey', s=E.S, mech=mech, wkey=right_key(E, m, 'pub'), key=E.k('aes256'), buf=4096)
                        E.c('C_UnwrapKey', s=E.S, mech=mech, ukey=right_key(E, m, 'priv'), wrapped=(r.get('out') or {}).get('data') or '00' * 40, tmpl=E.T(UNWRAP_TARGETS[0][1]))
                    if 'G' in ops: E.c('C_GenerateKey', s=E.S, mech=mech, tmpl=E.T([('CKA_TOKEN', False), ('CKA_VALUE_LEN', 16), ('CKA_PRIME_BITS', 512)][:2 if 'PARAMETER' not in m else 3:1 if 'PARAMETER' not in m else 2] or [('CKA_TOKEN', False)]))
                    if 'V' in ops:
                        r = E.c('C_DeriveKey', s=E.S, mech=mech, key=right_key(E, m, 'priv'), tmpl=E.T(DERIVE_T + [('CKA_VALUE_LEN', 16)]))
                        if r['rv'] == 0: use_key(E.c, E.ck, E.S, r['h'], 'generic', E.haes)
                add(tag, m, f)
    elif family == 'keytype':
        kinds = [k for k in K.kinds() if k in GOLDEN_TOK0]
        for m, (pk, ops, ks) in list(FG.MECHS.items()) + [('unknown:%x' % u, ('none', 'ESRWVD', [])) for u in FG.UNKNOWN_MECHS[:4]]:
            for kind in kinds:
                def f(E, m=m, kind=kind):
                    mech = wf_mech(E, H, m) if not m.startswith('unknown') else {'m': int(m[8:], 16), 'p': None}; h = E.k(kind)
                    for opk in ('E', 'De', 'S', 'Ve', 'SR', 'VR'):
                        if E.c(INIT_FN[opk], s=E.S, mech=mech, key=h)['rv'] == 0:
                            if opk in ('SR', 'VR'): E.c('C_SignRecover' if opk == 'SR' else 'C_VerifyRecover', s=E.S, data='5a' * 32, buf=4096)
                            else: data_phase(E, opk, m)
                            r = E.c('C_OpenSession', slot=E.st.slots[0], flags=6); E.c('C_CloseSession', s=E.S); E.S = r['h']
                    r = E.c('C_WrapKey', s=E.S, mech=mech, wkey=h, key=E.k('aes256'), buf=4096); E.c('C_WrapKey', s=E.S, mech=mech, wkey=right_key(E, m, 'pub') if not m.startswith('unknown') else E.k('aes128'), key=h, buf=4096)
                    E.c('C_UnwrapKey', s=E.S, mech=mech, ukey=h, wrapped='00' * 40, tmpl=E.T(UNWRAP_TARGETS[0][1]))
                    r = E.c('C_DeriveKey', s=E.S, mech=mech, key=h, tmpl=E.T(DERIVE_T + [('CKA_VALUE_LEN', 16)]))
                    if E.c('C_DigestInit', s=E.S, mech=E.M('CKM_SHA256'))['rv'] == 0: E.c('C_DigestKey', s=E.S, key=h); E.c('C_DigestFinal', s=E.S, buf=64)
                add('keytype=' + FG.kclass(kind), f'{m} x {kind}', f)
    elif family == 'datalen':
        for m, (pk, ops, ks) in FG.MECHS.items():
            for opk, side in ([('E', 'pub'), ('De', 'priv')] if 'E' in ops else []) + ([('S', 'priv'), ('Ve', 'pub')] if 'S' in ops else []) + ([('D', '')] if 'D' in ops else []):
                for n in (LEN_GRID if scale > 1 else [0, 1, 15, 16, 17, 32, 33, 117, 118, 128, 129, 245, 256, 257, 4096, 65536]):
                    def f(E, m=m, opk=opk, side=side, n=n):
                        mech = wf_mech(E, H, m); key = right_key(E, m, side); d = '5a' * n
                        init = (lambda: E.c('C_DigestInit', s=E.S, mech=mech)) if opk == 'D' else (lambda: E.c(INIT_FN[opk], s=E.S, mech=mech, key=key))
                        for buf in (None, 0, 1, 15, 4096 + n):
                            if init()['rv'] != 0: return
                            if opk == 'D': E.c('C_Digest', s=E.S, data=d, buf=buf); E.c('C_Digest', s=E.S, data=d, buf=4096)
                            elif opk == 'Ve': E.c('C_Verify', s=E.S, data='5a' * 32, sig=d); break
                            else: E.c({'E': 'C_Encrypt', 'De': 'C_Decrypt', 'S': 'C_Sign'}[opk], s=E.S, data=d, buf=buf); E.c({'E': 'C_Encrypt', 'De': 'C_Decrypt', 'S': 'C_Sign'}[opk], s=E.S, data=d, buf=4096 + n)
                        for fbuf in (None, 0, 1, 15, 16, 4096):   # multi-part: Update with n bytes (twice), Final with every buffer size
                            if init()['rv'] != 0: return
                            if opk == 'D': E.c('C_DigestUpdate', s=E.S, data=d); E.c('C_DigestFinal', s=E.S, buf=fbuf); E.c('C_DigestFinal', s=E.S, buf=4096)
                            elif opk == 'Ve': E.c('C_VerifyUpdate', s=E.S, data=d); E.c('C_VerifyFinal', s=E.S, sig='a5' * (n % 300)); break
                            elif opk == 'S': E.c('C_SignUpdate', s=E.S, data=d); E.c('C_SignFinal', s=E.S, buf=fbuf); E.c('C_SignFinal', s=E.S, buf=4096)
                            else:
                                U, Fi = ('C_EncryptUpdate', 'C_EncryptFinal') if opk == 'E' else ('C_DecryptUpdate', 'C_DecryptFinal')
                                E.c(U, s=E.S, data=d, buf=fbuf); E.c(U, s=E.S, data=d, buf=4096 + n); E.c(Fi, s=E.S, buf=fbuf); E.c(Fi, s=E.S, buf=4096)
                    add('len:data=' + len_class(n), f'{m} {opk} {n}', f)
    elif family == 'derive':
        for m in FG.op_mechs('V'):
            for vl in (None, 0, 1, 7, 8, 16, 24, 31, 32, 33, 64, 255, 256, 4096, (1 << 31) + 1, FG.U64):
                for kt in ('CKK_GENERIC_SECRET', 'CKK_AES', 'CKK_DES', 'CKK_DES2', 'CKK_DES3', 'CKK_RSA', 0xFFFFFFFF):
                    def f(E, m=m, vl=vl, kt=kt):
                        t = SECRET_T + [('CKA_KEY_TYPE', kt), ('CKA_DERIVE', True)] + ([('CKA_VALUE_LEN', vl)] if vl is not None else [])
                        r = E.c('C_DeriveKey', s=E.S, mech=wf_mech(E, H, m), key=right_key(E, m, 'priv'), tmpl=E.T(t))
                        if r['rv'] == 0: use_key(E.c, E.ck, E.S, r['h'], {'CKK_AES': 'aes', 'CKK_DES3': 'des3', 'CKK_DES2': 'des3', 'CKK_DES': 'des3'}.get(kt, 'generic'), E.haes)
                    add('tmpl=ulong-value', f'{m} VALUE_LEN={vl} {kt}', f)
            for _ in range(draws(30)):
                lab, t = H.hostile_template(H_T(ck, DERIVE_T + [('CKA_VALUE_LEN', 16)]))
                def f(E, m=m, t=t): E.c('C_DeriveKey', s=E.S, mech=wf_mech(E, H, m), key=right_key(E, m, 'priv'), tmpl=t)
                add('tmpl=' + lab, m, f)
    elif family == 'template':
        for kind in REP:
            for _ in range(draws(24)):
                lab, t = H.hostile_template(H_T(ck, K.template(kind)))
                def f(E, kind=kind, t=t):
                    r = E.c('C_CreateObject', s=E.S, tmpl=t)
                    if r['rv'] == 0 and r.get('h'): E.tag = 'use-of-hostile-object'; use_key(E.c, E.ck, E.S, r['h'], use_class(kind), E.haes); E.c('C_GetAttributeValue', s=E.S, o=r['h'], tmpl=[{'t': E.ck[a], 'buf': 4096} for a in PROBE_ATTRS[:40]]); E.c('C_CopyObject', s=E.S, o=r['h'], tmpl=[])
                add('tmpl=' + lab, 'C_CreateObject ' + kind, f)
            for _ in range(draws(8)):
                lab, t = H.hostile_template(H_T(ck, [('CKA_LABEL', b'x'), ('CKA_ID', b'y'), ('CKA_ENCRYPT', True), ('CKA_EXTRACTABLE', False)][:rnd.randrange(1, 5)]))
                def f(E, kind=kind, t=t):
                    r = E.c('C_CopyObject', s=E.S, o=E.k(kind), tmpl=[{'t': E.ck.CKA_TOKEN, 'bool': False}])
                    if r['rv'] == 0: E.c('C_SetAttributeValue', s=E.S, o=r['h'], tmpl=t); E.c('C_CopyObject', s=E.S, o=r['h'], tmpl=t); E.c('C_FindObjectsInit', s=E.S, tmpl=t); E.c('C_FindObjects', s=E.S, max=4); E.c('C_FindObjectsFinal', s=E.S)
                add('tmpl=' + lab, 'C_SetAttributeValue/C_CopyObject/C_FindObjectsInit ' + kind, f)
        gens = [('CKM_AES_KEY_GEN', [('CKA_VALUE_LEN', 16)]), ('CKM_GENERIC_SECRET_KEY_GEN', [('CKA_VALUE_LEN', 32)]), ('CKM_DES3_KEY_GEN', []), ('CKM_DSA_PARAMETER_GEN', [('CKA_PRIME_BITS', 512)]), ('CKM_DH_PKCS_PARAMETER_GEN', [('CKA_PRIME_BITS', 512)])]
        for m, extra in gens:
            for _ in range(draws(20)):
                lab, t = H.hostile_template(H_T(ck, [('CKA_TOKEN', False), ('CKA_ENCRYPT', True)] + extra))
                def f(E, m=m, t=t): E.c('C_GenerateKey', s=E.S, mech=E.M(m), tmpl=t)
                add('tmpl=' + lab, 'C_GenerateKey ' + m, f)
        R = K.RAW
        pairs = [('CKM_RSA_PKCS_KEY_PAIR_GEN', [('CKA_MODULUS_BITS', 512), ('CKA_PUBLIC_EXPONENT', bytes([1, 0, 1]))]), ('CKM_EC_KEY_PAIR_GEN', [('CKA_EC_PARAMS', bytes.fromhex(R['ec_p256']['CKA_EC_PARAMS']))]),
                 ('CKM_EC_EDWARDS_KEY_PAIR_GEN', [('CKA_EC_PARAMS', bytes.fromhex(R['ed25519']['CKA_EC_PARAMS']))]), ('CKM_DSA_KEY_PAIR_GEN', [(a, bytes.fromhex(R['dsa1024'][a])) for a in ('CKA_PRIME', 'CKA_SUBPRIME', 'CKA_BASE')]),
                 ('CKM_DH_PKCS_KEY_PAIR_GEN', [(a, bytes.fromhex(R['dh1024'][a])) for a in ('CKA_PRIME', 'CKA_BASE')])]
        for m, pub in pairs:
            for which in ('pub', 'priv'):
                for _ in range(draws(24)):
                    bt = [('CKA_TOKEN', False), ('CKA_VERIFY', True)] + pub if which == 'pub' else [('CKA_TOKEN', False), ('CKA_SIGN', True), ('CKA_SENSITIVE', False)]
                    lab, t = H.hostile_template(H_T(ck, bt))
                    def f(E, m=m, t=t, which=which, pub=pub):
                        a = t if which == 'pub' else E.T([('CKA_TOKEN', False)] + pub); b = t if which == 'priv' else E.T([('CKA_TOKEN', False)])
                        r = E.c('C_GenerateKeyPair', s=E.S, mech=E.M(m), pub=a, priv=b)
                        if r['rv'] == 0:
                            E.tag = 'use-of-hostile-object'; fam = {'CKM_RSA_PKCS_KEY_PAIR_GEN': 'rsa', 'CKM_EC_KEY_PAIR_GEN': 'ec', 'CKM_EC_EDWARDS_KEY_PAIR_GEN': 'ed', 'CKM_DSA_KEY_PAIR_GEN': 'dsa', 'CKM_DH_PKCS_KEY_PAIR_GEN': 'dh'}[m]
                            use_key(E.c, E.ck, E.S, r['hpriv'], fam + '-priv', E.haes); use_key(E.c, E.ck, E.S, r['hpub'], fam + '-pub', E.haes)
                    add('tmpl=' + lab, f'C_GenerateKeyPair {m} {which}', f)
    elif family == 'tmplsize':
        # every template-taking entry point with WELL-FORMED templates of 0, 1, 27..34, 40, 64 entries (the library copies templates
        # into fixed 32-entry arrays in several places); C_GenerateKeyPair varies its two templates independently
        SZ = [0, 1, 27, 28, 29, 30, 31, 32, 33, 34, 40, 64]
        def sized(E, pairs, n):
            """the template `pairs` brought to exactly n entries: truncated, or padded with duplicates of harmless attributes"""
            t = E.T(pairs)[:n]; i = 0
            while len(t) < n: t.append({'t': E.ck.CKA_LABEL, 'hex': b'padded'.hex()} if i % 2 == 0 else {'t': E.ck.CKA_ID, 'hex': b'pad-id'.hex()}); i += 1
            return t
        R = K.RAW; bits = 512 if scale <= 1 else 1024
        pairs = [('CKM_RSA_PKCS_KEY_PAIR_GEN', [('CKA_MODULUS_BITS', bits), ('CKA_PUBLIC_EXPONENT', bytes([1, 0, 1]))], 'rsa'), ('CKM_EC_KEY_PAIR_GEN', [('CKA_EC_PARAMS', bytes.fromhex(R['ec_p256']['CKA_EC_PARAMS']))], 'ec'),
                 ('CKM_EC_EDWARDS_KEY_PAIR_GEN', [('CKA_EC_PARAMS', bytes.fromhex(R['ed25519']['CKA_EC_PARAMS']))], 'ed'), ('CKM_DSA_KEY_PAIR_GEN', [(a, bytes.fromhex(R['dsa1024'][a])) for a in ('CKA_PRIME', 'CKA_SUBPRIME', 'CKA_BASE')], 'dsa'),
                 ('CKM_DH_PKCS_KEY_PAIR_GEN', [(a, bytes.fromhex(R['dh1024'][a])) for a in ('CKA_PRIME', 'CKA_BASE')], 'dh')]
        for m, pub, fam_ in pairs:
            PUB = [('CKA_TOKEN', False), ('CKA_VERIFY', True)] + pub; PRIV = [('CKA_TOKEN', False), ('CKA_SIGN', True), ('CKA_SENSITIVE', False), ('CKA_EXTRACTABLE', True)]
            combos = [(None, n) for n in SZ] + [(n, None) for n in SZ] + [(31, 31), (32, 32), (33, 33), (64, 64), (28, 29), (29, 28)]
            for np_, nq in combos:
                def f(E, m=m, PUB=PUB, PRIV=PRIV, np_=np_, nq=nq, fam_=fam_):
                    a = sized(E, PUB, max(np_, len(PUB)) if np_ is not None and np_ >= len(PUB) else (np_ if np_ is not None else len(PUB)))
                    b = sized(E, PRIV, nq if nq is not None else len(PRIV))
                    r = E.c('C_GenerateKeyPair', s=E.S, mech=E.M(m), pub=a, priv=b)
                    if r['rv'] == 0: use_key(E.c, E.ck, E.S, r['hpriv'], fam_ + '-priv', E.haes); E.c('C_GetAttributeValue', s=E.S, o=r['hpub'], tmpl=[{'t': E.ck.CKA_LABEL, 'buf': 64}, {'t': E.ck.CKA_ID, 'buf': 64}])
                add('tmpl=entries-around-32', f'C_GenerateKeyPair {m} public={np_} private={nq}', f)
        for n in SZ:
            for kind in ('aes128', 'rsa1024:pub', 'rsa1024:priv', 'ec_p256:priv', 'dsa1024:pub', 'dh1024:priv', 'ed25519:pub', 'data', 'x509'):
                def f(E, kind=kind, n=n):
                    base = K.template(kind); r = E.c('C_CreateObject', s=E.S, tmpl=sized(E, base, max(n, len(base)) if n >= 27 else n))
                    if r['rv'] == 0: use_key(E.c, E.ck, E.S, r['h'], use_class(kind), E.haes)
                add('tmpl=entries-around-32', f'C_CreateObject {kind} {n}', f)
            for kind in ('aes128', 'rsa1024:priv', 'ec_p256:pub', 'data', 'x509'):
                def f(E, kind=kind, n=n):
                    r = E.c('C_CopyObject', s=E.S, o=E.k(kind), tmpl=sized(E, [('CKA_TOKEN', False)], n))
                    if r['rv'] == 0:
                        E.c('C_SetAttributeValue', s=E.S, o=r['h'], tmpl=sized(E, [], n)); E.c('C_GetAttributeValue', s=E.S, o=r['h'], tmpl=[{'t': E.ck[FG.ALL_ATTR_NAMES[i % 60]], 'buf': r_} for i, r_ in zip(range(n), [64, None, 8, 4096] * 16)])
                        E.c('C_CopyObject', s=E.S, o=r['h'], tmpl=sized(E, [], n))
                add('tmpl=entries-around-32', f'C_CopyObject/C_SetAttributeValue/C_GetAttributeValue {kind} {n}', f)
            def f(E, n=n):
                for base in ([], [('CKA_CLASS', 'CKO_SECRET_KEY')], [('CKA_TOKEN', True), ('CKA_KEY_TYPE', 'CKK_RSA')]):
                    if E.c('C_FindObjectsInit', s=E.S, tmpl=sized(E, base, n) if n else [], **({'force_ptr': True} if n == 0 else {}))['rv'] == 0: E.c('C_FindObjects', s=E.S, max=8); E.c('C_FindObjectsFinal', s=E.S)
            add('tmpl=entries-around-32', f'C_FindObjectsInit {n}', f)
            for m, extra in (('CKM_AES_KEY_GEN', [('CKA_VALUE_LEN', 16)]), ('CKM_GENERIC_SECRET_KEY_GEN', [('CKA_VALUE_LEN', 32)]), ('CKM_DES3_KEY_GEN', []), ('CKM_DES2_KEY_GEN', []), ('CKM_DSA_PARAMETER_GEN', [('CKA_PRIME_BITS', 512)]), ('CKM_DH_PKCS_PARAMETER_GEN', [('CKA_PRIME_BITS', 512)])):
                if m == 'CKM_DH_PKCS_PARAMETER_GEN' and n not in (0, 28, 29, 32, 33, 64): continue     # (slow: a safe-prime search per call)
                def f(E, m=m, extra=extra, n=n): E.c('C_GenerateKey', s=E.S, mech=E.M(m), tmpl=sized(E, [('CKA_TOKEN', False)] + extra + [('CKA_ENCRYPT', True)], n))
                add('tmpl=entries-around-32', f'C_GenerateKey {m} {n}', f)
            for m, p, ukind, tk, tgt in (('CKM_AES_KEY_WRAP', None, 'aes128', 'aes256', 0), ('CKM_AES_KEY_WRAP_PAD', None, 'aes128', 'rsa1024:priv', 3), ('CKM_AES_KEY_WRAP_PAD', None, 'aes128', 'ec_p256:priv', 4), ('CKM_RSA_PKCS', None, 'rsa1024:priv', 'aes128', 0),
                                     ('CKM_AES_CBC_PAD', {'hex': '00' * 16}, 'aes128', 'generic32', 1)):
                def f(E, m=m, p=p, ukind=ukind, tk=tk, tgt=tgt, n=n):
                    r = E.c('C_WrapKey', s=E.S, mech=E.M(m, p), wkey=E.k(ukind.replace(':priv', ':pub')), key=E.k(tk), buf=8192)
                    if r['rv'] != 0: return
                    r2 = E.c('C_UnwrapKey', s=E.S, mech=E.M(m, p), ukey=E.k(ukind), wrapped=r['out']['data'], tmpl=sized(E, UNWRAP_TARGETS[tgt][1], max(n, len(UNWRAP_TARGETS[tgt][1])) if n >= 27 else n))
                    if r2['rv'] == 0: use_key(E.c, E.ck, E.S, r2['h'], UNWRAP_TARGETS[tgt][0], E.haes)
                add('tmpl=entries-around-32', f'C_UnwrapKey {m} {tk} {n}', f)
            for m in FG.op_mechs('V'):
                def f(E, m=m, n=n):
                    base = DERIVE_T + [('CKA_VALUE_LEN', 16)]
                    r = E.c('C_DeriveKey', s=E.S, mech=wf_mech(E, H, m), key=right_key(E, m, 'priv'), tmpl=sized(E, base, max(n, len(base)) if n >= 27 else n))
                    if r['rv'] == 0: use_key(E.c, E.ck, E.S, r['h'], 'generic', E.haes)
                add('tmpl=entries-around-32', f'C_DeriveKey {m} {n}', f)
    elif family == 'misc':
        for kind in [k for k in K.kinds() if k in GOLDEN_TOK0]:
            def f(E, kind=kind):
                h = E.k(kind)
                for buf in (None, 0, 1, 7):
                    for i in range(0, len(FG.ALL_ATTR_NAMES), 16): E.c('C_GetAttributeValue', s=E.S, o=h, tmpl=[{'t': E.ck[a], 'buf': buf} for a in FG.ALL_ATTR_NAMES[i:i + 16] if a not in FG.ARRAY_ATTRS or buf is None])
                for a in FG.ARRAY_ATTRS:
                    for nslots in (0, 1, 2, 8): E.c('C_GetAttributeValue', s=E.S, o=h, tmpl=[{'t': E.ck[a], 'tmpl': [{'t': 0, 'buf': b} for b in ([0, 1, 8, 64] * 2)[:nslots]]}])
                E.c('C_GetObjectSize', s=E.S, o=h)
            add('buf=size', 'C_GetAttributeValue every attribute x small buffers on ' + kind, f)
            for _ in range(draws(6)):
                lab, t = H.hostile_template([], get=True)
                def f(E, kind=kind, t=t): E.c('C_GetAttributeValue', s=E.S, o=E.k(kind), tmpl=t)
                add('tmpl=' + lab, 'C_GetAttributeValue ' + kind, f)
        # nested templates read back into inner buffers of every small size, in every slot (the three-step protocol with honest pointers and stated sizes, but sizes the library did not suggest)
        for arr in ('CKA_WRAP_TEMPLATE', 'CKA_UNWRAP_TEMPLATE'):
            for sizes in ([1] * 5, [4] * 5, [7] * 5, [8, 0, 8, 8, 8], [8, 1, 3, 64, 7], [2, 8, 64, 5, 8], [64] * 5, [8, 1, 64, 8, 8, 8], [8, 8, 8, 8, 8, 4, 1]):      # (the object's template has five entries)
                def f(E, arr=arr, sizes=sizes):
                    inner = [('CKA_CLASS', E.ck.CKO_SECRET_KEY), ('CKA_EXTRACTABLE', True), ('CKA_LABEL', b'inner-label-0123456789'), ('CKA_KEY_TYPE', E.ck.CKK_AES), ('CKA_VALUE_LEN', 16)]
                    r = E.c('C_CreateObject', s=E.S, tmpl=E.T(list(K.template('aes128', label='with-nested')) + [(arr, inner)]))
                    if r['rv'] != 0: return
                    E.c('C_GetAttributeValue', s=E.S, o=r['h'], tmpl=[{'t': E.ck[arr], 'tmpl': [{'t': 0, 'buf': b} for b in sizes]}])
                    E.c('C_GetAttributeValue', s=E.S, o=r['h'], tmpl=[{'t': E.ck[arr], 'tmpl': [{'t': 0, 'buf': b} for b in sizes[:2]]}]); E.c('X_GetTemplateAttr', s=E.S, o=r['h'], t=E.ck[arr])
                add('buf=size', f'{arr} read into inner buffers of sizes {sizes}', f)
        for n in LEN_GRID + [1 << 20]:
            def f(E, n=n):
                E.c('C_SetOperationState', s=E.S, data=H.blob(n), k1=0, k2=0); E.c('C_SetOperationState', s=E.S, data='00' * n, k1=E.k('aes128'), k2=E.k('rsa1024:priv'))
                E.c('C_SeedRandom', s=E.S, data=H.blob(n)); E.c('C_GenerateRandom', s=E.S, buf=n); E.c('C_GetOperationState', s=E.S, buf=(None if n == 0 else n))
                if E.c('C_DigestInit', s=E.S, mech=E.M('CKM_SHA256'))['rv'] == 0: E.c('C_GetOperationState', s=E.S, buf=n); E.c('C_GetOperationState', s=E.S, buf=None); E.c('C_DigestFinal', s=E.S, buf=64)
            add('len:data=' + len_class(n), 'C_SetOperationState/C_SeedRandom/C_GenerateRandom/C_GetOperationState %d' % n, f)
    elif family == 'misc-state':     # cells that change PINs / tokens / the initialisation state: one executor each
        for n in (0, 1, 3, 4, 8, 31, 32, 255, 256, 257, 1024, 65536):
            for fnname in ('C_Login', 'C_SetPIN', 'C_InitPIN', 'C_InitToken'):
                def f(E, n=n, fnname=fnname):
                    pin = ('70' * n) if n else ''
                    if fnname == 'C_Login':
                        E.c('C_Logout', s=E.S)
                        for u in (0, 1, 2, 3, FG.U64): E.c('C_Login', s=E.S, user=u, pin=pin); E.c('C_Login', s=E.S, user=u, pin={'null': True, 'len': 0})
                    elif fnname == 'C_SetPIN': E.c('C_SetPIN', s=E.S, old=pin, new=USER_PIN[0].hex()); E.c('C_SetPIN', s=E.S, old=USER_PIN[0].hex(), new=pin); E.c('C_Logout', s=E.S); E.c('C_SetPIN', s=E.S, old=pin, new=pin)
                    elif fnname == 'C_InitPIN': E.c('C_InitPIN', s=E.S, pin=pin); E.c('C_Logout', s=E.S); E.c('C_Login', s=E.S, user=0, pin=SO_PIN[0].hex()); E.c('C_InitPIN', s=E.S, pin=pin); E.c('C_Login', s=E.S, user=1, pin=pin)
                    else:
                        E.c('C_InitToken', slot=E.st.slots[1], pin=pin, label='41' * 32); E.c('C_CloseAllSessions', slot=E.st.slots[1]); E.c('C_InitToken', slot=E.st.slots[1], pin=pin, label=''); E.c('C_InitToken', slot=E.st.slots[2], pin=pin, label='42' * 32)
                        E.c('C_GetSlotList', null=True); E.c('C_GetTokenInfo', slot=E.st.slots[2])
                add('pin:pin=' + ('0' if n == 0 else 'short' if n < 4 else 'long' if n > 255 else 'size'), f'{fnname} pin length {n}', f)
        for sl in (0, 1, 2, 3, 1 << 31, (1 << 31) - 1, 1 << 32, FG.U64, 12345):
            def f(E, sl=sl):
                for fnname in ('C_GetSlotInfo', 'C_GetTokenInfo', 'C_CloseAllSessions'): E.c(fnname, slot=sl)
                E.c('C_GetMechanismList', slot=sl, count=128); E.c('C_GetMechanismList', slot=sl, null=True); E.c('C_GetMechanismInfo', slot=sl, m=E.ck.CKM_AES_CBC); E.c('C_OpenSession', slot=sl, flags=6); E.c('C_InitToken', slot=sl, pin='31323334', label='')
            add('handle:slot=random', 'slot functions with slot id %d' % sl, f)
        for cnt in (0, 1, 2, 3, 4096):
            def f(E, cnt=cnt):
                for p in (True, False): E.c('C_GetSlotList', count=cnt, present=p); E.c('C_GetSlotList', null=True, present=p)
                E.c('C_GetMechanismList', slot=E.st.slots[0], count=cnt); E.c('C_FindObjectsInit', s=E.S, tmpl=[]); E.c('C_FindObjects', s=E.S, max=cnt); E.c('C_FindObjects', s=E.S, max=65536); E.c('C_FindObjectsFinal', s=E.S)
                for m in list(FG.MECHS)[:80] + FG.UNKNOWN_MECHS: E.c('C_GetMechanismInfo', slot=E.st.slots[0], m=(E.ck[m] if isinstance(m, str) else m))
            add('arg:count=' + ('0' if cnt == 0 else 'small' if cnt < 8 else 'large'), 'list functions with count %d' % cnt, f)
        def f(E):
            for fnname in ('C_GetInfo', 'C_GetFunctionList', 'C_GetFunctionStatus', 'C_CancelFunction', 'C_WaitForSlotEvent', 'C_Initialize', 'C_Finalize', 'C_GetInfo', 'C_GetSessionInfo', 'C_Finalize', 'C_Initialize', 'C_Initialize'):
                E.c(fnname, **({'s': E.S} if fnname in FG.SESSION_FNS else {}), **({'flags': 1} if fnname == 'C_WaitForSlotEvent' else {}))
            for fnname in FG.ALL_FNS:   # every entry point with dead handles after a re-initialisation
                q = dict(fn=fnname)
                if fnname in ('C_Finalize', 'C_InitToken'): continue
                q.update({k: v for k, v in dict(s=E.S, o=E.k('aes128'), key=E.k('aes128'), wkey=E.k('aes128'), ukey=E.k('aes128'), slot=E.st.slots[0], mech=E.M('CKM_SHA256'), data='00' * 16, sig='00' * 16, wrapped='00' * 16, buf=64, tmpl=[], pub=[], priv=[], pin='31323334', old='31323334', new='31323334', user=1, m=E.ck.CKM_SHA256, count=8, flags=1 if fnname == 'C_WaitForSlotEvent' else 6, max=4).items()})
                E.mon.call(q, E.tag)
        add('handle:s=stale', 'every entry point with handles from before C_Finalize/C_Initialize', f)
    return cells

def H_T(ck, pairs):
    """python template -> request entries without needing an executor"""
    g = FG.Gen.__new__(FG.Gen); g.ck = ck; return g.T(K.resolve(ck, list(pairs)))

FAMILIES = ['damaged-key', 'copy-use', 'tmplsize', 'unwrap', 'mechparam', 'keytype', 'datalen', 'derive', 'template', 'misc', 'misc-state']
BATCH = {'damaged-key': 12, 'copy-use': 8, 'tmplsize': 20, 'unwrap': 40, 'mechparam': 30, 'keytype': 40, 'datalen': 12, 'derive': 40, 'template': 20, 'misc': 6, 'misc-state': 1}

def run_cells(env, family, cells, part, solo=False):
    """cells of one batch share an executor (a fresh session each); a death is re-run alone in a fresh executor to attribute it"""
    rnd = random.Random(1); d = os.path.join(env['scratch'], 'g%d' % random.getrandbits(48)); i = 0; cur = None
    while i < len(cells):
        shutil.rmtree(d, ignore_errors=True); x = new_exec(env, d, conf=clone_golden(env, d)); mon = Monitor(x, env['ck'], part); tag, detail = 'setup', ''
        try:
            st = deep_state(mon, env, rnd, light=True)
            while i < len(cells):
                tag, detail, f = cells[i]; E = CellEnv(mon, env, st, tag); cur = E
                r = mon.call(dict(fn='C_OpenSession', slot=st.slots[0], flags=6), 'setup'); E.S = r.get('h', 0)
                r = mon.call(dict(fn='C_CreateObject', s=E.S, tmpl=x.T(K.resolve(env['ck'], K.template('aes128', label='cell-aes')))), 'setup'); E.haes = r.get('h', 0)
                n0 = len(mon.reqs); f(E); mon.call(dict(fn='C_CloseSession', s=E.S), 'setup')
                part.case((family, tag, detail.split(' ')[0])); part.count('grid_cells'); part.count('grid_calls', len(mon.reqs) - n0); part.count('grid:' + family); i += 1
                if len(part.samples) < 1: part.samples.append({'mode': 'grid', 'family': family, 'tag': tag, 'detail': detail, 'requests': [clip(q, 64) for q in mon.reqs[n0:n0 + 6]]})
        except Died as e:
            sig = death_sig(e); fn = e.fn; x.kill()
            if tag == 'setup': part.violation(f'{fn}|well-formed|{sig}', f'the library terminated the host process inside {fn} during the well-formed prologue', {'mode': 'grid', 'family': family, 'stderr_tail': report_head(e)}); i += 1; continue
            tag = cur.tag; wit = {'mode': 'grid', 'family': family, 'cell': detail, 'tag': tag, 'seed': env['seed'], 'cfg': env['cfg'], 'backend': env['backend'], 'dying_request': clip(mon.reqs[-1]), 'note': e.note,
                   'stderr_tail': report_head(e), 'trace_tail': [clip(q, 80) for q in mon.reqs[-6:]]}
            if solo: return [(fn, sig, wit)]
            # the canonical key comes from re-running the cell ALONE in a fresh executor (deterministic heap, no residue of earlier cells)
            alone = run_cells(env, family, [cells[i]], Part(), solo=True)
            if alone: fn, sig, wit = alone[0]; cls = wit.get('tag', tag)
            else: cls = 'sequence-dependent:' + tag
            part.violation(f'{fn}|{key_class(cls)}|{sig}', f'the library terminated the host process inside {fn} ({sig.split("@")[0]})', wit)
            part.count('deaths'); part.case((family, tag, detail.split(' ')[0])); part.count('grid_cells'); i += 1
        except Hang as hg:
            x.kill(); part.count('hangs')
            if str(hg) == 'busy': part.observe('long computation (CPU-busy past the %d s watchdog; not a hang)' % TIMEOUT, {'fn': (mon.reqs[-1] or {}).get('fn'), 'cell': detail}); part.count('busy_timeouts'); i += 1; continue
            if solo: return [((mon.reqs[-1] or {}).get('fn'), 'hang', {'mode': 'grid', 'family': family, 'cell': detail, 'request': clip(mon.reqs[-1])})]
            part.violation(f'{(mon.reqs[-1] or {}).get("fn")}|{key_class(cur.tag if cur else tag)}|hang', 'a call did not return within %d s (process idle)' % TIMEOUT, {'mode': 'grid', 'family': family, 'cell': detail, 'request': clip(mon.reqs[-1])}); i += 1
        finally: x.kill()
    shutil.rmtree(d, ignore_errors=True)
    return []

# ------------------------------------------------------------------------------------------------ (b) file fuzz
PROBE_ATTRS = FG.BOOL_ATTRS + FG.ULONG_ATTRS + FG.BYTES_ATTRS + FG.MECHLIST_ATTRS
def recovery_probe(mon, env, cls):
    """fixed well-formed program run in a fresh process on the mutated directory: Initialize, slot list, token info of all
    slots, open session, login with both PINs, find all, read all attributes of each object, use each key once, Finalize.
    Any return code is acceptable; dying is not."""
    ck = env['ck']; x = mon.x; c = lambda fn, **kw: mon.call(dict(fn=fn, **kw), cls); used = 0
    if c('C_Initialize', locking='os')['rv'] != 0:
        c('C_GetSlotList', count=16); c('C_Finalize'); return 0
    c('C_GetInfo'); slots = []
    for present in (False, True):      # the two-call idiom: size query, then a buffer of EXACTLY that size (a heap block of that size in the executor)
        n = c('C_GetSlotList', null=True, present=present).get('n', 0); r = c('C_GetSlotList', count=min(n, 4096), present=present); slots = r.get('slots', []) or slots
    u64 = lambda v: struct.pack('<Q', v).hex()
    for slot in slots[:6]:
        c('C_GetSlotInfo', slot=slot); ti = c('C_GetTokenInfo', slot=slot)
        n = c('C_GetMechanismList', slot=slot, null=True).get('n', 0); ml = c('C_GetMechanismList', slot=slot, count=min(n, 4096)).get('mechs', [])
        if n > 1: c('C_GetMechanismList', slot=slot, count=n - 1)
        for m in ml[:200]: c('C_GetMechanismInfo', slot=slot, m=m)
        r = c('C_OpenSession', slot=slot, flags=6)
        if r['rv'] != 0: continue
        S = r['h']; c('C_GetSessionInfo', s=S)
        for pin in SO_PIN: 
            if c('C_Login', s=S, user=0, pin=pin.hex())['rv'] == 0: c('C_Logout', s=S); break
        for pin in USER_PIN:
            if c('C_Login', s=S, user=1, pin=pin.hex())['rv'] == 0: break
        # session helper keys
        r = c('C_CreateObject', s=S, tmpl=x.T(K.resolve(ck, K.template('aes128', label='probe-aes')))); haes = r['h'] if r['rv'] == 0 else 0
        hs = []
        if c('C_FindObjectsInit', s=S, tmpl=[])['rv'] == 0:
            while len(hs) < 400:
                r = c('C_FindObjects', s=S, max=64)
                if r['rv'] != 0 or not r.get('objs'): break
                hs += r['objs']
            c('C_FindObjectsFinal', s=S)
        for h in hs:
            if h == haes: continue
            q = c('C_GetAttributeValue', s=S, o=h, tmpl=[{'t': ck[a], 'buf': None} for a in PROBE_ATTRS])
            sizes = [(e.get('len', -1) if isinstance(e.get('len'), int) else -1) for e in q.get('tmpl', [])] or [-1] * len(PROBE_ATTRS)
            got = c('C_GetAttributeValue', s=S, o=h, tmpl=[{'t': ck[a], 'buf': (min(n, 1 << 20) if n >= 0 else 16)} for a, n in zip(PROBE_ATTRS, sizes)])
            vals = {a: e.get('data') for a, e in zip(PROBE_ATTRS, got.get('tmpl', [])) if isinstance(e.get('len'), int) and e.get('len', -1) >= 0}
            for a in FG.ARRAY_ATTRS:
                c('C_GetAttributeValue', s=S, o=h, tmpl=[{'t': ck[a], 'buf': None}]); c('C_GetAttributeValue', s=S, o=h, tmpl=[{'t': ck[a], 'tmpl': [{'t': 0, 'buf': 64} for _ in range(8)]}])
            c('C_GetObjectSize', s=S, o=h)
            cl = vals.get('CKA_CLASS'); kt = vals.get('CKA_KEY_TYPE'); lab = bytes.fromhex(vals.get('CKA_LABEL') or '').decode('latin-1').split('/')[0]
            kcs = set()
            if cl == u64(ck.CKO_SECRET_KEY): kcs.add({u64(ck.CKK_AES): 'aes', u64(ck.CKK_DES3): 'des3', u64(ck.CKK_DES2): 'des3', u64(ck.CKK_DES): 'des3', u64(ck.CKK_GENERIC_SECRET): 'generic'}.get(kt, 'generic'))
            elif cl in (u64(ck.CKO_PRIVATE_KEY), u64(ck.CKO_PUBLIC_KEY)):
                kcs.add({u64(ck.CKK_RSA): 'rsa', u64(ck.CKK_EC): 'ec', u64(ck.CKK_EC_EDWARDS): 'ed', u64(ck.CKK_DSA): 'dsa', u64(ck.CKK_DH): 'dh'}.get(kt, 'rsa') + ('-priv' if cl == u64(ck.CKO_PRIVATE_KEY) else '-pub'))
            lk = FG.kclass(lab) if lab in K.kinds() else None
            if lk and lk not in ('cert', 'data', 'params', 'unknown'): kcs.add('des3' if lk in ('des2', 'des') else lk)   # what the application believes the key is
            for kc in sorted(kcs): use_key(c, ck, S, h, kc, haes); used += 1
            r = c('C_CopyObject', s=S, o=h, tmpl=x.T([('CKA_TOKEN', False), ('CKA_LABEL', b'probe-copy')]))
            if r['rv'] == 0: c('C_DestroyObject', s=S, o=r['h'])
            c('C_SetAttributeValue', s=S, o=h, tmpl=x.T([('CKA_LABEL', (lab or 'relabelled').encode('latin-1'))]))
            if vals.get('CKA_ID') is not None: c('C_FindObjectsInit', s=S, tmpl=[{'t': ck.CKA_ID, 'hex': vals['CKA_ID'][:512]}]); c('C_FindObjects', s=S, max=8); c('C_FindObjectsFinal', s=S)
        c('C_Logout', s=S); c('C_CloseSession', s=S)
    c('C_Finalize')
    return used

def use_key(c, ck, S, h, kc, haes):
    M = lambda n, p=None: {'m': ck[n], 'p': p}; msg = '00112233445566778899aabbccddeeff' * 2; R = K.RAW
    def enc_dec(m, p, n):
        if c('C_EncryptInit', s=S, mech=M(m, p), key=h)['rv'] == 0:
            r = c('C_Encrypt', s=S, data=msg[:2 * n], buf=1024); ct = (r.get('out') or {}).get('data', '') if r['rv'] == 0 else '00' * 32
        else: ct = '00' * 32
        if c('C_DecryptInit', s=S, mech=M(m, p), key=h)['rv'] == 0: c('C_Decrypt', s=S, data=ct, buf=1024)
    def sign(m, p=None, n=32, size=1024):
        if c('C_SignInit', s=S, mech=M(m, p), key=h)['rv'] == 0: return c('C_Sign', s=S, data=msg[:2 * n], buf=size)
    def verify(m, p=None, n=32, siglen=64):
        if c('C_VerifyInit', s=S, mech=M(m, p), key=h)['rv'] == 0: c('C_Verify', s=S, data=msg[:2 * n], sig='5a' * siglen)
    derive_t = [{'t': ck.CKA_CLASS, 'ulong': ck.CKO_SECRET_KEY}, {'t': ck.CKA_KEY_TYPE, 'ulong': ck.CKK_GENERIC_SECRET}, {'t': ck.CKA_TOKEN, 'bool': False}, {'t': ck.CKA_SENSITIVE, 'bool': False}, {'t': ck.CKA_EXTRACTABLE, 'bool': True}]
    if kc == 'aes':
        enc_dec('CKM_AES_CBC_PAD', {'hex': '01' * 16}, 20); enc_dec('CKM_AES_GCM', {'gcm': {'iv': '02' * 12, 'aad': '03' * 4, 'tagbits': 128}}, 20); sign('CKM_AES_CMAC')
        if haes: c('C_WrapKey', s=S, mech=M('CKM_AES_KEY_WRAP_PAD'), wkey=h, key=haes, buf=256)
        c('C_DeriveKey', s=S, mech=M('CKM_AES_ECB_ENCRYPT_DATA', {'kdstr': '04' * 16}), key=h, tmpl=derive_t)
    elif kc == 'des3': enc_dec('CKM_DES3_CBC_PAD', {'hex': '01' * 8}, 20); sign('CKM_DES3_CMAC')
    elif kc == 'generic': sign('CKM_SHA256_HMAC'); verify('CKM_SHA_1_HMAC', siglen=20); c('C_DigestInit', s=S, mech=M('CKM_SHA256')); c('C_DigestKey', s=S, key=h); c('C_DigestFinal', s=S, buf=64)
    elif kc == 'rsa-priv':
        sign('CKM_SHA256_RSA_PKCS'); sign('CKM_RSA_PKCS_PSS', {'pss': {'hash': ck.CKM_SHA256, 'mgf': ck.CKG_MGF1_SHA256, 'slen': 32}}); sign('CKM_RSA_X_509', n=16)
        for n in (128, 256):
            if c('C_DecryptInit', s=S, mech=M('CKM_RSA_PKCS'), key=h)['rv'] == 0: c('C_Decrypt', s=S, data='00' + '5a' * (n - 1), buf=512)
        c('C_UnwrapKey', s=S, mech=M('CKM_RSA_PKCS'), ukey=h, wrapped='00' + '5a' * 127, tmpl=derive_t[:2] + derive_t[2:3])
    elif kc == 'rsa-pub':
        verify('CKM_SHA256_RSA_PKCS', siglen=128); verify('CKM_SHA1_RSA_PKCS_PSS', {'pss': {'hash': ck.CKM_SHA_1, 'mgf': ck.CKG_MGF1_SHA1, 'slen': 20}}, siglen=256)
        for m, p in (('CKM_RSA_PKCS', None), ('CKM_RSA_PKCS_OAEP', {'oaep': {'hash': ck.CKM_SHA_1, 'mgf': ck.CKG_MGF1_SHA1, 'source': 1}})):
            if c('C_EncryptInit', s=S, mech=M(m, p), key=h)['rv'] == 0: c('C_Encrypt', s=S, data=msg[:32], buf=512)
        if haes: c('C_WrapKey', s=S, mech=M('CKM_RSA_PKCS'), wkey=h, key=haes, buf=512)
    elif kc == 'ec-priv':
        sign('CKM_ECDSA')
        for peer in ('ec_p256b', 'ec_p384b', 'ec_p521b'): c('C_DeriveKey', s=S, mech=M('CKM_ECDH1_DERIVE', {'ecdh1': {'kdf': 1, 'public': R[peer]['CKA_EC_POINT']}}), key=h, tmpl=derive_t)
    elif kc == 'ec-pub': verify('CKM_ECDSA', siglen=64); verify('CKM_ECDSA', siglen=132)
    elif kc == 'ed-priv': sign('CKM_EDDSA'); c('C_DeriveKey', s=S, mech=M('CKM_ECDH1_DERIVE', {'ecdh1': {'kdf': 1, 'public': R['ed25519b']['CKA_EC_POINT']}}), key=h, tmpl=derive_t)
    elif kc == 'ed-pub': verify('CKM_EDDSA', siglen=64)
    elif kc == 'dsa-priv': sign('CKM_DSA_SHA1'); sign('CKM_DSA', n=20)
    elif kc == 'dsa-pub': verify('CKM_DSA_SHA256', siglen=40); verify('CKM_DSA', n=20, siglen=40)
    elif kc == 'dh-priv': c('C_DeriveKey', s=S, mech=M('CKM_DH_PKCS_DERIVE', {'hex': R['dh1024b']['CKA_VALUE']}), key=h, tmpl=derive_t)
    if kc.endswith('-priv') and haes: c('C_WrapKey', s=S, mech=M('CKM_AES_KEY_WRAP_PAD'), wkey=haes, key=h, buf=4096)   # PKCS#8 encoding of whatever the file now says

EXPECTED_KIND = {}
def _expected_kinds(ck):
    if not EXPECTED_KIND:
        for a in FG.BOOL_ATTRS: EXPECTED_KIND[ck[a]] = 1
        for a in FG.ULONG_ATTRS: EXPECTED_KIND[ck[a]] = 2
        for a in FG.BYTES_ATTRS: EXPECTED_KIND[ck[a]] = 3
        for a in FG.ARRAY_ATTRS: EXPECTED_KIND[ck[a]] = 4
        for a in FG.MECHLIST_ATTRS: EXPECTED_KIND[ck[a]] = 5
        EXPECTED_KIND.update({0x80005349: 3, 0x8000534A: 3, 0x8000534B: 2, 0x8000534C: 3, 0x8000534D: 3})
    return EXPECTED_KIND
def effect_class(ck, orig, new):
    """what a mutation did to an object file, as the LIBRARY will see it (the canonical input class of a file-fuzz death):
    the operator that produced it stays in the witness"""
    if len(new) == 0: return 'empty'
    Fn, Rn = FG.walk_objfile(new); Fo, Ro = FG.walk_objfile(orig)
    if not ((Rn and Rn[-1][1] == len(new)) or len(new) == 8): return 'malformed'
    EK = _expected_kinds(ck)
    if any(EK.get(t) not in (None, k) for (_, _, t, k) in Rn): return 'kind-mismatch'
    to = [t for (_, _, t, _) in Ro]; tn = [t for (_, _, t, _) in Rn]
    if set(to) - set(tn): return 'attribute-missing'
    if len(tn) != len(set(tn)): return 'attribute-duplicated'
    if set(tn) - set(to): return 'attribute-added'
    vo = {t: orig[s0 + 16:e0] for (s0, e0, t, _) in Ro}; vn = {t: new[s0 + 16:e0] for (s0, e0, t, _) in Rn}
    if any(len(vo[t]) != len(vn[t]) for t in vn): return 'attribute-resized'
    if any(vo[t] != vn[t] for t in vn): return 'attribute-value'
    if tn != to: return 'attribute-reordered'
    return 'generation-only' if orig[:8] != new[:8] else 'unchanged'

def coarse_effect(eff):
    """key classes: the file still parses but its attribute set / kinds / values differ ('altered'), it no longer parses ('malformed'), it is empty, or nothing the library reads changed"""
    return 'empty' if eff == 'empty' else 'unchanged' if eff in ('unchanged', 'generation-only') else 'damaged'

def _strtoul16(t):
    """what strtoul(s, NULL, 16) & (2^31 - 1) makes of a serial, as SlotManager computes slot ids"""
    t = t.decode('latin-1') if isinstance(t, bytes) else t; t = t.split('\x00')[0]
    if len(t) >= 8: t = t[-8:]
    m = re.match(r'\s*([+-]?)(?:0[xX])?([0-9a-fA-F]*)', t); v = int(m.group(2) or '0', 16)
    if m.group(1) == '-': v = -v
    return v & ((1 << 64) - 1) & ((1 << 31) - 1)
def slot_collision(d, be):
    """True if, as the directory stands, two tokens (or a token and the free slot, whose id is the number of tokens) get the same slot id"""
    ids = []
    for t in token_dirs(d):
        try:
            if be == 'file':
                b = open(os.path.join(t, 'token.object'), 'rb').read(); F, R = FG.walk_objfile(b); ser = [b[s0 + 24:e0] for (s0, e0, ty, k) in R if ty == FG.CKA_OS_TOKENSERIAL and k == 3]
                if not ser or not (R and R[-1][1] == len(b)): continue
                ids.append(_strtoul16(ser[0]))
            else:
                con = sqlite3.connect(os.path.join(t, 'sqlite3.db')); row = con.execute('select value from attribute_binary where type=?', (FG.CKA_OS_TOKENSERIAL,)).fetchone(); con.close()
                if row and row[0] is not None: ids.append(_strtoul16(bytes(row[0])))
        except Exception: continue
    return len(ids) != len(set(ids)) or len(ids) in ids

def token_dirs(d): return sorted(os.path.join(d, 'tokens', t) for t in os.listdir(os.path.join(d, 'tokens')))
def read_label(tokdir, backend):
    try:
        if backend == 'file':
            b = open(os.path.join(tokdir, 'token.object'), 'rb').read()
            for (s0, e0, t, k) in FG.walk_objfile(b)[1]:
                if t == 0x80005349: return b[s0 + 24:e0]
        else:
            con = sqlite3.connect(os.path.join(tokdir, 'sqlite3.db')); row = con.execute('select value from attribute_binary where type=?', (0x80005349,)).fetchone(); con.close(); return bytes(row[0]) if row else b''
    except Exception: return b''
    return b''

def mutate_db(rnd, path):
    """one hostile edit of the SQLite token database: raw (header / page bytes) or SQL-level (rows of the attribute tables)"""
    r = rnd; c = r.randrange(16); b = bytearray(open(path, 'rb').read()); n = len(b); ps = struct.unpack('>H', b[16:18])[0] if n >= 18 else 4096; ps = 65536 if ps == 1 else (ps or 4096)
    def wr(x): open(path, 'wb').write(bytes(x))
    if c == 0:
        for _ in range(r.choice([1, 2, 8, 64])): i = r.randrange(n); b[i] ^= 1 << r.randrange(8)
        wr(b); return 'raw:bitflip'
    if c == 1: i = r.randrange(100); b[i] = r.choice([0, 1, 0xff, 0x80]); wr(b); return 'raw:header-byte'
    if c == 2: wr(b[:r.choice([0, 1, 16, 99, 100, 101, ps - 1, ps, ps + 1, n - 1, n - ps, r.randrange(n)])]); return 'raw:truncate'
    if c == 3: p = r.randrange(max(1, n // ps)); b[p * ps:(p + 1) * ps] = bytes(ps) if r.random() < 0.5 else r.randbytes(ps); wr(b); return 'raw:page-wipe'
    if c == 4: wr(b + r.randbytes(r.choice([1, 100, ps, ps + 1]))); return 'raw:append'
    if c == 5:
        p = r.randrange(max(1, n // ps)); o = p * ps + (100 if p == 0 else 0)   # b-tree page header: type, freeblock, cell count, content start
        for i in range(8): 
            if r.random() < 0.4 and o + i < n: b[o + i] = r.choice([0, 0xff, 0x0d, 0x05, 0x02, 0x0a, r.randrange(256)])
        wr(b); return 'raw:page-header'
    if c == 6: wr(r.choice([b'', b'SQLite format 3\x00', r.randbytes(4096), bytes(4096)])); return 'raw:replaced'
    con = sqlite3.connect(path); cur = con.cursor(); lab = 'sql:noop'
    try:
        T = ['attribute_binary', 'attribute_boolean', 'attribute_integer', 'attribute_array', 'attribute_text', 'attribute_datetime', 'attribute_real']
        def somerow(t):
            rows = cur.execute(f'select id from {t}').fetchall(); return r.choice(rows)[0] if rows else None
        if c == 7:
            t = r.choice(T[:4]); i = somerow(t)
            if i is not None: cur.execute(f'update {t} set type=? where id=?', (r.choice([0, 0x100, 0x11, 0x161, 0x120, 0x40000211, 0x40000600, 0x8000534A, 0x8000534C, 0xFFFFFFFF, -1, (1 << 63) - 1]), i)); lab = 'sql:type-swap'
        elif c == 8:
            i = somerow('attribute_binary')
            if i is not None: m = r.choice([0, 1, 2, 100, 65536]); cur.execute('update attribute_binary set value=? where id=?', (r.choice([None, r.randbytes(m), bytes(m)]), i)); lab = 'sql:binary-value'
        elif c == 9:
            i = somerow('attribute_integer')
            if i is not None: cur.execute('update attribute_integer set value=? where id=?', (r.choice([0, 1, 2, 3, 4, 5, -1, 0x1f, 1 << 31, 1 << 32, (1 << 63) - 1, -(1 << 63), None, 'text', b'blob', 1.5]), i)); lab = 'sql:integer-value'
        elif c == 10:
            i = somerow('attribute_array')
            if i is not None:
                v = bytearray(cur.execute('select value from attribute_array where id=?', (i,)).fetchone()[0] or b''); k = r.randrange(6)
                if k == 0 and v: v = v[:r.randrange(len(v))]
                elif k == 1 and len(v) >= 8: o = r.randrange(0, len(v) - 7); v[o:o + 8] = struct.pack('<Q', r.choice([0, 1, len(v), 1 << 31, 1 << 63, FG.U64, FG.U64 - 7, FG.U64 - 15, FG.U64 - (len(v) - o - 8) + 1]))
                elif k == 2 and len(v) >= 12: v[8:12] = struct.pack('<I', r.choice([0, 1, 2, 3, 4, 5, 6, 0xff, 0xFFFFFFFF]))
                elif k == 3: v += r.randbytes(r.choice([1, 7, 8, 9, 100]))
                elif k == 4 and v: 
                    for _ in range(r.choice([1, 4])): j = r.randrange(len(v)); v[j] ^= 1 << r.randrange(8)
                else: v = bytearray(r.randbytes(r.choice([1, 8, 12, 13, 20, 21, 100])))
                cur.execute('update attribute_array set value=? where id=?', (bytes(v), i)); lab = 'sql:array-blob'
        elif c == 11:
            i = somerow('attribute_boolean')
            if i is not None: cur.execute('update attribute_boolean set value=? where id=?', (r.choice([2, -1, 255, None, 'x', b'\x01', 1 << 40]), i)); lab = 'sql:boolean-value'
        elif c == 12:
            k = r.randrange(4)
            if k == 0: cur.execute('delete from object where id=?', (r.randrange(1, 40),))
            elif k == 1: cur.execute(f'delete from {r.choice(T[:4])} where object_id=?', (r.randrange(1, 40),))
            elif k == 2: cur.execute(f'update {r.choice(T[:4])} set object_id=? where object_id=?', (r.choice([0, -1, 9999, 1, 2]), r.randrange(1, 40)))
            else: cur.execute('insert into object default values')
            lab = 'sql:row-structure'
        elif c == 13:
            t = r.choice(T[:4]); i = somerow(t)
            if i is not None: cur.execute(f'insert into {t} (value, type, object_id) select value, type, object_id from {t} where id=?', (i,)); lab = 'sql:duplicate-row'
        elif c == 14:
            k = r.randrange(4)
            if k == 0: cur.execute(f'drop table {r.choice(T + ["object"])}')
            elif k == 1: cur.execute(f'alter table {r.choice(T[:4])} rename to renamed_x')
            elif k == 2: cur.execute('pragma user_version = %d' % r.choice([0, 1, 2, 99, -1]))
            else: cur.execute(f'delete from {r.choice(T[:4])}')
            lab = 'sql:schema'
        else:
            # kind confusion: store an attribute in the table of another kind (CKA_VALUE as boolean, CKA_CLASS as binary, ...)
            src, dst = r.sample(T[:4], 2); i = somerow(src)
            if i is not None:
                row = cur.execute(f'select type, object_id from {src} where id=?', (i,)).fetchone(); val = {'attribute_binary': r.randbytes(8), 'attribute_boolean': 1, 'attribute_integer': r.choice([0, 3, 1 << 40]), 'attribute_array': r.randbytes(21)}[dst]
                cur.execute(f'insert into {dst} (value, type, object_id) values (?,?,?)', (val, row[0], row[1]))
                if r.random() < 0.5: cur.execute(f'delete from {src} where id=?', (i,))
                lab = 'sql:kind-confusion'
        con.commit()
    except sqlite3.Error as e: lab = 'sql:noop'
    finally: con.close()
    return lab

KEY_ATTR_NAMES = ['CKA_CLASS', 'CKA_KEY_TYPE', 'CKA_VALUE', 'CKA_MODULUS', 'CKA_PUBLIC_EXPONENT', 'CKA_PRIVATE_EXPONENT', 'CKA_PRIME_1', 'CKA_PRIME_2', 'CKA_EXPONENT_1', 'CKA_EXPONENT_2',
                  'CKA_COEFFICIENT', 'CKA_PRIME', 'CKA_SUBPRIME', 'CKA_BASE', 'CKA_EC_PARAMS', 'CKA_EC_POINT']
def sorted_objs(tok): return sorted((n for n in os.listdir(tok) if n.endswith('.object') and n != 'token.object'), key=lambda n: os.stat(os.path.join(tok, n)).st_mtime_ns)
def directed_items(env):
    """systematic part of the file fuzz: every key-material attribute of every object of token 0 x {deleted, emptied, stored under another kind}"""
    ck = env['ck']; want = {ck[a] for a in KEY_ATTR_NAMES}; be = env['backend']; toks = token_dirs(env['golden']); toks.sort(key=lambda t: read_label(t, be)); t0 = toks[0]; out = []
    out += [('dir', i, 0, 'conf-mechanisms') for i in range(len(CONF_DIRECTED))]      # slots.mechanisms lists that name a mechanism 2..40 times (positive / negative, with / without unknown names)
    if be == 'file':
        for oi, n in enumerate(sorted_objs(t0)):
            for (s0, e0, t, k) in FG.walk_objfile(open(os.path.join(t0, n), 'rb').read())[1]:
                if t in want: out += [('dir', oi, t, op) for op in ('delete', 'empty', 'kind')]
    else:
        con = sqlite3.connect(os.path.join(t0, 'sqlite3.db'))
        for tab in ('attribute_binary', 'attribute_integer'):
            for oid, t in con.execute(f'select object_id, type from {tab} order by object_id, type').fetchall():
                if t in want: out += [('dir', oid, t, op) for op in ('delete', 'empty', 'kind')]
        con.close()
    return out
CONF_DIRECTED = [(pos, rep, unk, k) for pos in (True, False) for rep in (2, 3, 13, 40) for unk in (False, True) for k in (1, 3)]
def apply_directed(env, t0, item):
    _, oi, at, op = item; U = lambda v: struct.pack('>Q', v)
    if op == 'conf-mechanisms':
        pos, rep, unk, k = CONF_DIRECTED[oi]; conf = os.path.join(os.path.dirname(os.path.dirname(t0)), 'softhsm2.conf')
        val = FG.mech_list_with_duplicates(random.Random(oi), pos, rep, unk, names=FG.MECH_NAMES[:k])
        open(conf, 'a').write('slots.mechanisms = %s\n' % val); return 'conf:mechanisms-duplicates', {'operator': 'directed:slots.mechanisms', 'value': val[:200], 'entries': val.count(',') + 1}
    if env['backend'] == 'file':
        p = os.path.join(t0, sorted_objs(t0)[oi]); b = open(p, 'rb').read(); rec = [x for x in FG.walk_objfile(b)[1] if x[2] == at][0]; s0, e0, t, k = rec
        if op == 'delete': new = b[:s0] + b[e0:]
        elif op == 'empty': new = b[:s0 + 16] + (U(0) if k in (2, 3) else b'\x00') + b[e0:]
        else: new = b[:s0 + 8] + ({3: U(1) + b'\x01', 2: U(3) + U(3) + b'abc', 1: U(2) + U(1)}.get(k) or (U(1) + b'\x01')) + b[e0:]
        open(p, 'wb').write(new); return 'object:' + coarse_effect(effect_class(env['ck'], b, new)), {'effect': effect_class(env['ck'], b, new), 'file': os.path.basename(p), 'object_index_in_creation_order': oi, 'attribute': env['ck'].ATTR.get(at, hex(at)), 'operator': 'directed:' + op, 'hex': new.hex() if len(new) <= 2048 else None}
    con = sqlite3.connect(os.path.join(t0, 'sqlite3.db')); cur = con.cursor()
    tab = 'attribute_binary' if cur.execute('select count(*) from attribute_binary where object_id=? and type=?', (oi, at)).fetchone()[0] else 'attribute_integer'
    if op == 'delete': cur.execute(f'delete from {tab} where object_id=? and type=?', (oi, at))
    elif op == 'empty': cur.execute(f'update {tab} set value=? where object_id=? and type=?', (b'' if tab == 'attribute_binary' else 0, oi, at))
    else:
        cur.execute(f'delete from {tab} where object_id=? and type=?', (oi, at)); dst, val = ('attribute_boolean', 1) if tab == 'attribute_binary' else ('attribute_binary', b'abc')
        cur.execute(f'insert into {dst} (value, type, object_id) values (?,?,?)', (val, at, oi))
    con.commit(); con.close()
    return 'object:damaged', {'object_id': oi, 'attribute': env['ck'].ATTR.get(at, hex(at)), 'operator': 'directed:' + op}

def file_case(env, idx, part):
    item = idx if isinstance(idx, tuple) else None; idx = ('d%d-%x-%s' % idx[1:]) if item else idx
    seed = env['seed'] * 1000003 + (idx if not item else 0); rnd = random.Random(seed); r = rnd; d = os.path.join(env['scratch'], 'f%s' % idx); shutil.rmtree(d, ignore_errors=True)
    conf = clone_golden(env, d); be = env['backend']; toks = token_dirs(d); toks.sort(key=lambda t: read_label(t, be)); t0 = toks[0]; info = {}
    c = r.random()
    try:
        if item: cls, info = apply_directed(env, t0, item); part.count('file_directed_cases')
        elif c < 0.13:
            lab, data = FG.mutate_conf(r, open(conf).read(), d); open(conf, 'wb').write(data); cls = 'conf:' + lab
        elif c < 0.21: cls = 'dir:' + mutate_dir(r, d, toks, be)
        elif be == 'file':
            tok = r.choice(toks) if r.random() < 0.3 else t0
            if c < 0.27:
                other = [t for t in toks if t != tok][0]; k = r.randrange(4); b = open(os.path.join(tok, 'token.object'), 'rb').read()
                if k == 3:   # the same serial on both tokens
                    ob = open(os.path.join(other, 'token.object'), 'rb').read(); ser = [ob[s0 + 24:e0] for (s0, e0, t, kk) in FG.walk_objfile(ob)[1] if t == FG.CKA_OS_TOKENSERIAL][0]
                else: ser = [b'%016x' % len(toks), b'%016x' % ((1 << 31) + len(toks)), r.choice([b'', b'zz', b'0' * 15 + b'g', b'f' * 16, b'1' * 64])][k]   # the free slot's id is the number of tokens
                nb = FG.set_token_serial(b, ser); open(os.path.join(tok, 'token.object'), 'wb').write(nb if nb else b); cls = 'token.object:serial-' + ['collision', 'collision', 'odd', 'collision'][k]; info['operator'] = ['collides-free-slot', 'collides-free-slot-bit31', 'odd', 'collides-other-token'][k]
            else:
                objs = sorted((n for n in os.listdir(tok) if n.endswith('.object') and n != 'token.object'), key=lambda n: os.stat(os.path.join(tok, n)).st_mtime_ns)   # creation order = order of kinds
                if c < 0.45: name = 'token.object'; kind = 'token.object'
                elif c < 0.49: name = 'generation'; kind = 'generation'
                else: oi = r.randrange(len(objs)); name = objs[oi]; kind = 'object'; info['object_index_in_creation_order'] = oi
                p = os.path.join(tok, name); b = open(p, 'rb').read() if os.path.exists(p) else b''
                ot = r.choice(toks); otherf = open(os.path.join(ot, r.choice([n for n in sorted(os.listdir(ot)) if n.endswith('.object')])), 'rb').read()
                lab, data = FG.mutate_objfile(r, b, otherf); open(p, 'wb').write(data); eff = effect_class(env['ck'], b, data); cls = '%s:%s' % (kind, coarse_effect(eff) if kind != 'generation' else 'rewritten'); info.update({'operator': lab, 'effect': eff, 'file': name, 'size': len(data), 'token': toks.index(tok)})
                if len(data) <= 2048: info['hex'] = data.hex()
        else:
            tok = r.choice(toks) if r.random() < 0.3 else t0; op = mutate_db(r, os.path.join(tok, 'sqlite3.db')); info['operator'] = op
            cls = 'db:unchanged' if op == 'sql:noop' else 'object:damaged'     # the operator (raw bytes / rows / values / schema) stays in the witness; the key class is the effect
    except Exception as e:
        part.inconc('mutation failed: %r' % (e,)); shutil.rmtree(d, ignore_errors=True); return
    if not cls.startswith('conf:') and slot_collision(d, be): info['mutated'] = cls; cls = 'token:serial-collision'     # classified by effect: whatever produced it, two slots now share an id
    cls = 'file/' + cls
    x = new_exec(env, d, conf=conf); mon = Monitor(x, env['ck'], part); used = 0
    try: used = recovery_probe(mon, env, cls)
    except Died as e:
        part.violation(f'{e.fn}|{cls}|{death_sig(e)}', f'after a mutation of the stored files ({cls}) the library terminated the host process inside {e.fn} ({e.kind()})',
                       {'mode': 'file', 'seed': env['seed'], 'index': item or idx, 'cfg': env['cfg'], 'backend': be, 'mutation': cls, 'info': info, 'note': e.note, 'stderr_tail': report_head(e), 'trace_tail': [clip(q, 80) for q in mon.reqs[-6:]]})
        part.count('deaths')
    except Hang as hg:
        part.count('hangs')
        if str(hg) == 'busy': part.observe('long computation (CPU-busy past the %d s watchdog; not a hang)' % TIMEOUT, {'fn': (mon.reqs[-1] or {}).get('fn'), 'mutation': cls, 'index': str(item or idx)}); part.count('busy_timeouts')
        else: part.violation(f'{(mon.reqs[-1] or {}).get("fn")}|{cls}|hang', 'a probe call did not return within %d s (process idle)' % TIMEOUT, {'mode': 'file', 'seed': env['seed'], 'index': idx, 'cfg': env['cfg'], 'backend': be, 'mutation': cls, 'info': info})
    finally: x.kill()
    part.case((cls, info.get('operator')), nontrivial=True); part.count('file_cases'); part.count('file_probe_calls', len(mon.reqs)); part.count('file_keys_used', used); part.count('mut:' + cls.split(':')[0])
    if len(part.samples) < 2 and not item and idx % 7 == 0: part.samples.append({'mode': 'file', 'index': idx, 'backend': be, 'mutation': cls, 'info': {k: v for k, v in info.items() if k != 'hex'}, 'probe_calls': len(mon.reqs)})
    shutil.rmtree(d, ignore_errors=True)

def mutate_dir(r, d, toks, be):
    tok = r.choice(toks); c = r.randrange(10); names = sorted(os.listdir(tok)); objs = [n for n in names if n.endswith('.object') and n != 'token.object']
    main_file = 'token.object' if be == 'file' else 'sqlite3.db'
    if c == 0: os.unlink(os.path.join(tok, main_file)); return 'token-file-missing'
    if c == 1: os.unlink(os.path.join(tok, main_file)); os.mkdir(os.path.join(tok, main_file)); return 'token-file-is-directory'
    if c == 2: shutil.rmtree(tok); open(tok, 'wb').write(b'not a directory'); return 'token-dir-is-file'
    if c == 3: os.mkdir(os.path.join(d, 'tokens', r.choice(['x', 'not-a-uuid', 'A' * 200, '00000000-0000-0000-0000-000000000000']))); return 'extra-empty-token-dir'
    if c == 4 and objs: n = r.choice(objs); os.unlink(os.path.join(tok, n)); os.mkdir(os.path.join(tok, n)); return 'object-is-directory'
    if c == 5 and objs: n = r.choice(objs); os.unlink(os.path.join(tok, n)); os.symlink(n, os.path.join(tok, n)); return 'object-symlink-loop'
    if c == 6: shutil.copytree(tok, tok + '-copy'); return 'token-dir-duplicated'
    if c == 7 and objs: n = r.choice(objs); shutil.copy(os.path.join(tok, n), os.path.join(tok, r.choice(['x.object', '.object', 'A' * 200 + '.object', n.replace('.object', '-2.object')]))); return 'object-copied-under-odd-name'
    if c == 8: os.chmod(os.path.join(tok, main_file), 0); return 'token-file-unreadable'   # (root ignores modes: then a no-op, still a case)
    if be == 'file' and objs:
        other = [t for t in toks if t != tok][0]; n = r.choice(objs); shutil.copy(os.path.join(tok, n), os.path.join(other, n)); return 'object-moved-to-other-token'
    open(os.path.join(d, 'tokens', 'stray-file'), 'wb').write(b'x'); return 'stray-file-in-tokendir'

# ------------------------------------------------------------------------------------------------ driver
def merge_part(dst, src):
    dst.evaluations += src.evaluations; dst.distinct |= src.distinct; dst.inconclusive += src.inconclusive
    for x in src.samples:
        if len(dst.samples) < 3: dst.samples.append(x)
    for k, v in src.viol.items(): dst.viol.setdefault(k, v)
    for k, v in src.counters.items(): dst.counters[k] = dst.counters.get(k, 0) + v
    for name, o in src.obs.items():
        t = dst.obs.setdefault(name, {'count': 0, 'examples': []}); t['count'] += o['count']
        for e in o['examples']:
            if len(t['examples']) < 10 and e not in t['examples']: t['examples'].append(e)

def mp_item(env, item):
    """several processes on one token (the serialised interleavings of checks/c15.py, create / set / destroy / find / get on shared labels, stale handles included):
    here only the C17 question is asked - does any process get terminated?"""
    import c15
    src = c15.serial_job(dict(paths=env['paths'], hdr=env['hdr'], scratch=env['scratch'], kind='serial', backend=item['backend'], cfg=env['cfg'], seed=item['seed'], nproc=item['nproc'], cases=item['cases'], perms=None, deaths='violation'))
    p = Part(); p.evaluations = src.evaluations; p.distinct = {('multi-process', item['backend'], item['nproc'])} if src.evaluations else set()
    for k, v in src.viol.items():
        if k.startswith('DEATH|'): p.viol[k[6:]] = v; p.count('deaths')
    p.count('mp_interleavings', src.evaluations)
    for w in src.inconclusive: p.observe('multi-process lane: run not completed', w[:200])
    if len(p.samples) < 1 and src.samples: p.samples.append({'mode': 'multi-process', 'backend': item['backend'], 'nproc': item['nproc'], **(src.samples[0] if isinstance(src.samples[0], dict) else {})})
    return p
# ------------------------------------------------------------------------------------------------ (e) well-formed calls whose file-system operations fail
FSF_CALLS = ('C_Initialize', 'C_OpenSession+C_Login', 'C_FindObjectsInit', 'C_GetAttributeValue', 'C_SetAttributeValue', 'C_CreateObject', 'C_CopyObject', 'C_GenerateKey', 'C_DestroyObject', 'C_Logout+C_Finalize')
def fsfault_item(env, item):
    """one well-formed call on the golden token with its k-th file-system operation failing (once, or that one and all later ones = a process at its descriptor limit / a disk that went away),
    then an epilogue of well-formed calls without faults.  Only the C17 question is asked: is the host terminated, now or later?  (What the failing call returns is C05 / C09's business.)"""
    p = Part(); ck = env['ck']; call = item['call']; d = os.path.join(env['scratch'], 'fsf'); root = os.path.join(d, 'tokens')
    def login(x, s_):
        for pn in USER_PIN:
            if x.call('C_Login', s=s_, user=1, pin=pn.hex())['rv'] == 0: return True
        return False
    def prologue(x, upto):
        st = {}
        if upto == 'C_Initialize': return st
        assert x.call('C_Initialize', locking='os')['rv'] == 0
        st['slot'] = [sl for sl in x.call('C_GetSlotList', count=8)['slots'] if x.call('C_GetTokenInfo', slot=sl).get('flags', 0) & ck.CKF_TOKEN_INITIALIZED][0]
        if upto == 'C_OpenSession+C_Login': return st
        st['s'] = x.call('C_OpenSession', slot=st['slot'], flags=6)['h']; login(x, st['s'])
        if upto == 'C_FindObjectsInit': return st
        rvn, hs = x.findall(st['s'], {}); st['objs'] = hs
        return st
    def victim(x, st):
        s_ = st.get('s'); o = (st.get('objs') or [0])[item['k'] % max(1, len(st.get('objs') or [0]))]
        if call == 'C_Initialize': return [x.call('C_Initialize', locking='os')]
        if call == 'C_OpenSession+C_Login': r1 = x.call('C_OpenSession', slot=st['slot'], flags=6); return [r1] + [x.call('C_Login', s=r1.get('h', 0), user=1, pin=pn.hex()) for pn in USER_PIN]
        if call == 'C_FindObjectsInit': return [x.call('C_FindObjectsInit', s=s_, tmpl=[]), x.call('C_FindObjects', s=s_, max=100), x.call('C_FindObjectsFinal', s=s_)]
        if call == 'C_GetAttributeValue': return [x.call('C_GetAttributeValue', s=s_, o=h, tmpl=[{'t': ck.CKA_LABEL, 'buf': 256}, {'t': ck.CKA_CLASS, 'buf': 8}, {'t': ck.CKA_VALUE, 'buf': 4096}]) for h in (st.get('objs') or [])[:6]]
        if call == 'C_SetAttributeValue': return [x.call('C_SetAttributeValue', s=s_, o=o, tmpl=x.T([('CKA_LABEL', b'relabelled-under-fault')]))]
        if call == 'C_CreateObject': return [x.call('C_CreateObject', s=s_, tmpl=x.T(K.resolve(ck, K.template('aes256', label='made-under-fault', token=True, private=True))))]
        if call == 'C_CopyObject': return [x.call('C_CopyObject', s=s_, o=o, tmpl=x.T([('CKA_LABEL', b'copied-under-fault')]))]
        if call == 'C_GenerateKey': return [x.call('C_GenerateKey', s=s_, mech=x.M('CKM_AES_KEY_GEN'), tmpl=x.T([('CKA_VALUE_LEN', 16), ('CKA_TOKEN', True), ('CKA_LABEL', b'generated-under-fault')]))]
        if call == 'C_DestroyObject': return [x.call('C_DestroyObject', s=s_, o=o)]
        return [x.call('C_Logout', s=s_), x.call('C_Finalize')]
    def epilogue(x):
        x.call('C_Finalize'); x.call('C_Initialize', locking='os')
        for sl in x.call('C_GetSlotList', count=8).get('slots', []):
            if not x.call('C_GetTokenInfo', slot=sl).get('flags', 0) & ck.CKF_TOKEN_INITIALIZED: continue
            s_ = x.call('C_OpenSession', slot=sl, flags=6).get('h', 0); login(x, s_)
            for h in x.findall(s_, {})[1][:40]: x.call('C_GetAttributeValue', s=s_, o=h, tmpl=[{'t': ck.CKA_LABEL, 'buf': 256}, {'t': ck.CKA_VALUE, 'buf': 4096}]); x.call('C_GetObjectSize', s=s_, o=h)
            x.call('C_CreateObject', s=s_, tmpl=x.T(K.resolve(ck, K.template('data', label='after-the-fault', token=True, private=False))))
        x.call('C_Finalize')
    x = None; phase = 'prologue'
    try:
        shutil.rmtree(d, ignore_errors=True); x = new_exec(env, d, conf=clone_golden(env, d)); st = prologue(x, call)
        if item['k'] == 0:
            x.call('fs', mode='count', root=root, reads=True); victim(x, st); n = x.call('fs', mode='status')['nops']; x.call('fs', mode='off'); p.extra_n = n; p.count('fsfault_ops:' + call, n); x.kill(); return p
        x.call('fs', mode='fail', root=root, k=item['k'], errno=item['errno'], sticky=item['sticky'], reads=True); phase = 'faulted call'
        rs = victim(x, st); inj = x.call('fs', mode='status').get('injected'); x.call('fs', mode='off'); phase = 'epilogue'
        for r in rs:
            if r.get('rvname', '').startswith('CKR_?') or r.get('rv', 0) < 0: p.violation(f'{call}|fs-fault|not-a-CKR-code', 'a call whose file-system operation failed returned something that is not a PKCS#11 return code', {'rv': r.get('rv')})
        epilogue(x); p.case(('fs-fault', call, item['errno'], item['sticky']), nontrivial=bool(inj)); p.count('fsfault_cases'); p.count('fsfault_injected', 1 if inj else 0)
    except Died as e:
        p.violation(f'{e.fn}|well-formed,fs-fault({"all-later-operations-fail" if item["sticky"] else "one-operation-fails"}):{call}|{death_sig(e)}', f'the library terminated the host process inside {e.fn} ({phase}) when a file-system operation of a well-formed {call} failed',
                    {'mode': 'fsfault', 'call': call, 'k': item['k'], 'errno': item['errno'], 'sticky': item['sticky'], 'phase': phase, 'cfg': env['cfg'], 'backend': env['backend'], 'note': e.note, 'stderr_tail': report_head(e)}); p.count('deaths'); p.case(('fs-fault', call, item['errno'], item['sticky'])); x = None
    except Hang: p.observe('fs-fault lane: a call did not return in time (not judged here)', {'call': call, 'k': item['k']})
    except (AssertionError, Lost) as e: p.observe('fs-fault lane: case could not be set up', repr(e)[:200])
    finally:
        if x is not None: x.kill()
    return p
def run_item(job, env, item):
    p = Part()
    if job['mode'] == 'grid':
        fam, lo, hi = item; run_cells(env, fam, grid_cells(fam, env['ck'], env['seed'], env['scale'])[lo:hi], p)
    elif job['mode'] == 'api': run_sequence(env, item, p)
    elif job['mode'] == 'mp': return mp_item(env, item)
    elif job['mode'] == 'fsfault': return fsfault_item(env, item)
    else: file_case(env, item, p)
    return p

def worker(job):
    part = Part(); env = dict(job['env']); env['ck'] = CK(env['hdr']); env['scratch'] = os.path.join(env['scratch'], 'w%d' % os.getpid()); os.makedirs(env['scratch'], exist_ok=True)
    for item in job['items']:
        t0 = time.time(); p = None
        for attempt in (0, 1):
            try:
                p = run_item(job, env, item)
                # a sanitizer death whose stack could not be symbolised (library being rewritten, symboliser starved) has no stable key: run the case again
                if attempt == 0 and any((k.endswith('@?') and '|asan:' in k) or k.endswith('|hang') for k in p.viol): p = None; continue   # (a hang must reproduce, too)
                break
            except Lost as e:
                p = None; import subprocess
                subprocess.run([sys.executable, f'{VERIF}/tools/build.py', env['cfg']], stdout=subprocess.DEVNULL, stderr=subprocess.DEVNULL)   # blocks on the build lock until the cache is whole again
                if attempt == 1: part.inconc('executor could not load the library: %s' % e)
            except (Died, Hang) as e: part.inconc('executor lost outside a monitored call: %r' % (e,)); break
        if p is not None: merge_part(part, p)
        part.count('worker_s:' + (job['mode'] if job['mode'] != 'grid' else 'grid:' + item[0]), round(time.time() - t0, 2))
    return part

def run(ctx):
    ctx.rule = ('(a) API fuzz: per sequence a fresh executor on a clone of a golden token directory (2 tokens, every object kind, user logged in, stale handles), then N calls drawn over all 68 entry points, '
                'each a well-formed base request with 0-3 hostile edits (handles, lengths, buffers, templates, mechanism parameters, key/mechanism mismatches), then a well-formed epilogue; '
                '(c) multi-process lane: serialised interleavings of 2-3 processes on one token (create / set / destroy / find / get on shared labels, handles of objects another process destroyed), file and db back-ends, judged only for termination; '
                '(b) file fuzz: one structure-aware mutation of object file / token.object / generation / SQLite db / softhsm2.conf / directory layout per case, then a fixed recovery probe in a fresh executor. '
                '(e) well-formed calls (initialise, open + login, find, get / set attribute, create, copy, generate, destroy, logout + finalise) with the k-th file-system operation failing, once or from then on, followed by a fault-free epilogue: only termination is judged; (d) coverage-guided lane (15000 runs per target in quick, 300000 in thorough) (vlib/fuzzlane.py): libFuzzer harnesses built with ASan/UBSan from the current sources feed arbitrary bytes as <uuid>.object, token.object and softhsm2.conf to the real ObjectFile / OSToken / SimpleConfigLoader classes and to the DER / ByteString helpers, a fixed number of executions per target, one evaluation = one execution. '
                'One evaluation = one hostile-sequence call or one mutated-file case; distinct = (entry point, hostile-input tag) pairs actually sent + distinct file-mutation classes; '
                'violations: Died (ASan, signal, exit/abort/assert), UBSan null/bounds/object-size, non-CKR return value, reproduced hang')
    cfgs = ctx.q([('asan', 'file', 0.9, True), ('asan', 'db', 0.1, False)], [('asan', 'file', 0.4, True), ('asan', 'db', 0.25, True), ('botan', 'file', 0.2, True), ('botan', 'db', 0.15, True)])   # (build, back-end, share of the random workloads, run the directed grids)
    nseq = ctx.q(2000, 60000); nfile = ctx.q(1500, 40000); ncalls = 30; scale = ctx.q(1.0, 3.0)
    if os.environ.get('C17_SCALE'): f = float(os.environ['C17_SCALE']); nseq = int(nseq * f); nfile = int(nfile * f)
    ctx.need(*sorted({c[0] for c in cfgs}))
    if ctx.replay: return replay(ctx)
    jobs = []; seq0 = ctx.seed * 10000019; file0 = 0
    for cfg, be, share, grids in cfgs:
        base = dict(paths=ctx.paths, hdr=ctx.paths[cfg]['hdr'], cfg=cfg, backend=be, scratch=ctx.scratch, ncalls=ncalls, seed=ctx.seed); base['ck'] = ctx.ck
        try: ga = ctx.dir(f'golden-api-{cfg}-{be}'); build_golden(dict(base, golden=ga), ga); gf = ctx.dir(f'golden-file-{cfg}-{be}'); build_golden(dict(base, golden=gf), gf, small=True)
        except Died as e:
            # the population of well-formed objects every workload starts from could not even be built: a well-formed call killed the host
            ctx.violation(f'{e.fn}|well-formed|{death_sig(e)}', f'the library terminated the host process inside {e.fn} while the well-formed starting population was being created ({cfg}/{be})', {'mode': 'golden', 'cfg': cfg, 'backend': be, 'note': e.note, 'stderr_tail': report_head(e)})
            ctx.case(('golden', cfg, be)); continue
        del base['ck']
        for fam in (FAMILIES if grids else ['copy-use']):
            if True:
                ncell = len(grid_cells(fam, ctx.ck, ctx.seed, scale)); b = BATCH[fam]
                for lo in range(0, ncell, b * 4): jobs.append(dict(mode='grid', env=dict(base, golden=ga, scale=scale), items=[(fam, i, min(i + b, ncell, lo + b * 4)) for i in range(lo, min(lo + b * 4, ncell), b)]))
        if cfg == 'asan':      # several processes sharing the token (both tiers, both back-ends)
            for i in range(ctx.q(2, 8)): jobs.append(dict(mode='mp', env=dict(base, golden=ga), items=[dict(backend=be, seed=ctx.seed * 1000 + 40 + i, nproc=2 + (i % 2), cases=ctx.q(40, 100))]))
        if cfg == 'asan':      # well-formed calls with failing file-system operations (both back-ends): dry run per call kind for the operation count, then every k
            fenv = dict(base, golden=gf, ck=ctx.ck, scratch=ctx.dir(f'fsf-plan-{be}')); fitems = []
            for call in FSF_CALLS:
                try: n_ops = int(getattr(fsfault_item(fenv, dict(call=call, k=0, errno=5, sticky=False)), 'extra_n', 0))
                except Exception as e: ctx.observe('fs-fault lane: dry run failed', {'call': call, 'error': repr(e)[:200]}); continue
                ks = list(range(1, min(n_ops, ctx.q(60, 400)) + 1))
                for k in ks:
                    fitems.append(dict(call=call, k=k, errno=[24, 5, 13, 28][k % (2 if ctx.quick else 4)], sticky=False))
                    if k <= 12 or k % 5 == 0: fitems.append(dict(call=call, k=k, errno=24, sticky=True))
            for i in range(0, len(fitems), 25): jobs.append(dict(mode='fsfault', env=dict(base, golden=gf), items=fitems[i:i + 25]))
            ctx.extra.setdefault('fs_fault_cases_planned', {})[be] = len(fitems)
        n = int(nseq * share); items = list(range(seq0, seq0 + n)); seq0 += n
        for i in range(0, n, 20): jobs.append(dict(mode='api', env=dict(base, golden=ga), items=items[i:i + 20]))
        dirs = directed_items(dict(base, golden=gf, ck=ctx.ck))
        n = max(0, int(nfile * share) - len(dirs)); items = dirs + list(range(file0, file0 + n)); file0 += n
        for i in range(0, n, 12): jobs.append(dict(mode='file', env=dict(base, golden=gf), items=items[i:i + 12]))
    random.Random(ctx.seed).shuffle(jobs)
    for part in pmap(worker, jobs, ctx.nproc): ctx.merge(part)
    for prefix, name in (('fn:', 'calls_per_entry_point'), ('rv:', 'return_codes'), ('mut:', 'file_mutation_targets'), ('worker_s:', 'worker_seconds'), ('grid:', 'grid_cells_per_family'), ('api_seq_with_active_', 'sequences_with_active_operation')):
        d = {k[len(prefix):]: (round(v, 1) if isinstance(v, float) else v) for k, v in ctx.extra.items() if k.startswith(prefix)}
        for k in list(ctx.extra):
            if k.startswith(prefix): del ctx.extra[k]
        ctx.extra[name] = d
    called = [f for f in FG.ALL_FNS if ctx.extra['calls_per_entry_point'].get(f, 0) > 0]; ctx.extra['entry_points_called'] = len(called)
    if len(called) < 68: ctx.inconc('only %d of the 68 entry points were called: missing %s' % (len(called), sorted(set(FG.ALL_FNS) - set(called))))
    ctx.extra['configs'] = ['%s/%s%s' % (c[0], c[1], ' (+grids)' if c[3] else '') for c in cfgs]
    if not ctx.replay: import fuzzlane; fuzzlane.run_fuzz_lane(ctx, ctx.q(15000, 300000))      # quick: a small dose (about 20 s); thorough: 300000 runs per target
    ctx.assumptions += ['every pointer argument references a block of at least the stated size (lengths only lie downwards; enforced by the executor too); NULL only for size queries, pTemplate with count 0, pPin/pData/pParameter with length 0',
                        'UBSan categories other than null-pointer load/store/member access, bounds and object-size are observations (listed under observations), not violations',
                        'where an abort has no sanitizer stack (exit() from the exception barrier) the death location is "?"',
                        'key generation sizes are capped (RSA <= 1024, DSA/DH parameter generation 512) to bound run time; the size checks themselves are probed with out-of-range values',
                        'thread-level hostility (concurrent calls) belongs to C18; file mutations are applied while no process has the token open',
                        'coverage-guided lane: the classes are driven by harnesses (exec/fuzz_*.cpp) that repeat the read / refresh / write-back calls of OSToken, Token, P11Attributes and C_Initialize, not by libsofthsm2.so itself; inputs are at most 4096 bytes; UBSan is judged as in the other lanes (null-pointer access and bounds end an execution, other categories are printed only)']

def replay(ctx):
    w = json.load(open(ctx.replay))['witness']
    if 'artifact_hex' in w or str(w.get('target', '')) in ('objectfile', 'tokenobject', 'config', 'der'):      # a witness of the coverage-guided lane
        import subprocess; sys.exit(subprocess.call([sys.executable, os.path.join(VERIF, 'vlib', 'fuzzlane.py'), 'replay', ctx.replay]))
    cfg = w['cfg']; be = w['backend']; ctx.need(cfg)
    env = dict(paths=ctx.paths, hdr=ctx.paths[cfg]['hdr'], ck=ctx.ck, cfg=cfg, backend=be, scratch=ctx.scratch, ncalls=w.get('ncalls', 30), seed=w['seed'])
    g = ctx.dir('golden'); env['golden'] = g; build_golden(env, g, small=(w['mode'] == 'file')); part = Part()
    if w['mode'] == 'grid':
        env['scale'] = 3.0 if ctx.tier == 'thorough' else 1.0
        cells = [c for sc in (1.0, 3.0) for c in grid_cells(w['family'], ctx.ck, w['seed'], sc) if c[1] == w['cell']][:1]
        r = run_cells(env, w['family'], cells, part, solo=True)
        for fn, sig, wit in r: part.violation(f"{fn}|{key_class(wit.get('tag', '?'))}|{sig}", 'reproduced', wit)
    elif w['mode'] == 'api': run_sequence(env, w['seed'], part)
    else: file_case(env, tuple(w['index']) if isinstance(w['index'], list) else w['index'], part)
    ctx.merge(part); ctx.case('replay', True); ctx.case('replay2', True)
    for k, (what, wit) in part.viol.items(): print('REPLAY reproduced:', k); print((wit or {}).get('stderr_tail', '')[-1500:])

if __name__ == '__main__': main('C17', run, min_evaluations=20000, min_distinct=300)
