#!/usr/bin/env python3
"""C17 - no input makes the library crash, corrupt memory or kill the host process.

Oracle = sanitizers + interposers, nothing is modelled: an ASan report, a fatal signal, exit/abort/assert/terminate
raised inside a C_* call (all surface as `Died`), a UBSan diagnostic of category null-pointer / bounds / object-size,
a return value that is not a CKR_* constant, a reproduced hang.  Two workloads: (a) hostile API sequences over all 68
entry points on a deep state, (b) structure-aware mutation of every file the library reads, each followed by a fixed
recovery probe in a fresh process.  One executor process per sequence / per mutated file."""
import sys, os, json, random, shutil, struct, sqlite3, time, re
sys.path.insert(0, os.path.join(os.path.dirname(os.path.abspath(__file__)), '..', 'vlib'))
from harness import main, Part, pmap, SAN_ENV, VERIF
from p11client import Exec, Died, Hang, mkconf
from ck import CK
import keys_c17 as K
import fuzzgen as FG

SO_PIN = [b'so-pin-tok0', b'so-pin-tok1']; USER_PIN = [b'user-pin-0', b'user-pin-1']
TIMEOUT = 90

# ------------------------------------------------------------------------------------------------ plumbing
def new_exec(env, d, backend=None, conf=None):
    p = env['paths'][env['cfg']]
    if conf is None: conf = mkconf(d, backend or env['backend'])
    n = len([f for f in os.listdir(d) if f.startswith('stderr')])
    x = Exec(p['exe'], p['lib'], conf, env['ck'], env=dict(SAN_ENV), stderr=f'{d}/stderr{n}.log', trace=f'{d}/trace{n}.jsonl'); x.timeout = TIMEOUT
    return x

def ubsan_class(msg):
    """the UBSan categories that ARE one of the failures the property names; everything else is an observation"""
    m = msg.lower()
    if 'null pointer' in m and 'misaligned' not in m and ('load of' in m or 'store to' in m or 'member access' in m or 'member call' in m): return 'null-pointer'
    if 'out of bounds' in m: return 'bounds'
    if 'insufficient space for an object' in m: return 'object-size'
    return None

class Monitor:
    """per-executor oracle: CK_RV validity, UBSan diagnostics attributed to the call that produced them"""
    def __init__(s, x, ck, part): s.x = x; s.ck = ck; s.part = part; s.pos = 0; s.reqs = []
    def new_ubsan(s):
        try:
            with open(s.x.stderr_path, 'rb') as f: f.seek(s.pos); t = f.read(); s.pos += len(t)
        except OSError: return []
        return [(m.group(3), m.group(1).split('/src/')[-1] + ':' + m.group(2)) for m in re.finditer(r'^(\S+?):(\d+):\d+: runtime error: (.*)$', t.decode('latin-1'), re.M)]
    def call(s, req, cls):
        """send one request; returns the reply.  Raises Died/Hang.  Records violations that do not kill the process."""
        s.reqs.append(req); r = s.x.raw(req); rv = r.get('rv', -1)
        if 'error' in r and rv == -1: s.part.inconc('harness: executor rejected a request: %s %s' % (r['error'], json.dumps(req)[:300])); r['rvname'] = 'HARNESS_ERROR'; return r
        r['rvname'] = s.ck.rv(rv)
        if r['rvname'].startswith('CKR_?'): s.part.violation(f"{req['fn']}|{cls}|invalid-rv", 'a return value that is not a CKR_* constant', {'rv': rv, 'request': clip(req)})
        for msg, loc in s.new_ubsan():
            c = ubsan_class(msg)
            if c: s.part.violation(f"{req['fn']}|{cls}|ubsan:{c}@{loc}", 'UBSan: ' + msg[:160], {'request': clip(req), 'location': loc})
            else: s.part.observe('ubsan-observation ' + loc, re.sub(r'0x[0-9a-f]+', '0x..', msg)[:140])
        return r

def clip(o, n=160):
    """shorten long hex strings for witnesses (the full request is in the trace / regenerated from the seed)"""
    if isinstance(o, str): return o if len(o) <= n else o[:n] + '...(%d chars)' % len(o)
    if isinstance(o, dict): return {k: clip(v, n) for k, v in o.items()}
    if isinstance(o, list): return [clip(v, n) for v in o[:40]] + (['...(%d items)' % len(o)] if len(o) > 40 else [])
    return o

# ------------------------------------------------------------------------------------------------ golden token directories
GOLDEN_TOK0 = [k for k in K.kinds() if k not in ('ec_p384b:pub', 'ec_p384b:priv', 'ec_p521b:pub', 'ec_p521b:priv', 'ed25519b:priv', 'dh1024b:priv', 'des')]
GOLDEN_TOK1 = ['aes128', 'generic32', 'rsa1024:pub', 'rsa1024:priv', 'ec_p256:priv', 'data', 'x509']
def build_golden(env, d):
    """two initialised tokens; token 0 holds every object kind as PRIVATE token objects plus public copies of a few,
    token 1 holds a few public objects.  Labels are the kind names."""
    x = new_exec(env, d); ck = env['ck']
    def ok(r): assert r['rv'] == 0, r; return r
    ok(x.call('C_Initialize'))
    for ti in range(2):
        slot = x.call('C_GetSlotList', count=16)['slots'][-1]
        ok(x.call('C_InitToken', slot=slot, pin=SO_PIN[ti].hex(), label=(b'golden%d' % ti).hex()))
        s = ok(x.call('C_OpenSession', slot=slot))['h']
        ok(x.call('C_Login', s=s, user=0, pin=SO_PIN[ti].hex())); ok(x.call('C_InitPIN', s=s, pin=USER_PIN[ti].hex())); ok(x.call('C_Logout', s=s))
        ok(x.call('C_Login', s=s, user=1, pin=USER_PIN[ti].hex()))
        for kind in (GOLDEN_TOK0 if ti == 0 else GOLDEN_TOK1):
            ok(x.call('C_CreateObject', s=s, tmpl=x.T(K.resolve(ck, K.template(kind, token=True, private=(ti == 0), sensitive=(ti == 0 and kind.endswith(':priv')))))))
        if ti == 0:
            for kind in ('aes256', 'rsa2048:pub', 'ec_p256:pub', 'data', 'x509', 'generic64'):
                ok(x.call('C_CreateObject', s=s, tmpl=x.T(K.resolve(ck, K.template(kind, label=kind + '/public', token=True, private=False)))))
            # one object with nested templates, an allowed-mechanism list and dates: the attribute-map / mechanism-set encodings exist on disk
            ok(x.call('C_CreateObject', s=s, tmpl=x.T(K.resolve(ck, K.template('aes192', label='aes192/rich', token=True, private=False, extra=[
                ('CKA_WRAP_TEMPLATE', [('CKA_CLASS', ck.CKO_SECRET_KEY), ('CKA_EXTRACTABLE', True), ('CKA_LABEL', b'inner')]), ('CKA_UNWRAP_TEMPLATE', [('CKA_SENSITIVE', False)]),
                ('CKA_ALLOWED_MECHANISMS', [ck.CKM_AES_CBC, ck.CKM_AES_CBC_PAD, ck.CKM_AES_KEY_WRAP_PAD, ck.CKM_AES_ECB]), ('CKA_START_DATE', b'20200101'), ('CKA_END_DATE', b'20991231')])))))
        ok(x.call('C_CloseSession', s=s)); x.call('C_GetSlotList', null=True)
    ok(x.call('C_Finalize')); x.close()
    for f in os.listdir(d):
        if f.startswith(('stderr', 'trace')): os.unlink(os.path.join(d, f))

def clone_golden(env, d):
    os.makedirs(d, exist_ok=True); shutil.copytree(os.path.join(env['golden'], 'tokens'), os.path.join(d, 'tokens'), symlinks=True)
    return mkconf(d, env['backend'])

# ------------------------------------------------------------------------------------------------ (a) API fuzz
def deep_state(mon, env, rnd):
    """well-formed prologue: sessions on both tokens, user logged in on token 0, handles of every token object,
    session copies of a sample of kinds, a destroyed object and a closed session (stale handles)"""
    ck = env['ck']; st = FG.FState(); c = lambda fn, **kw: mon.call(dict(fn=fn, **kw), 'setup')
    c('C_Initialize', locking=rnd.choice(['os', 'none']))
    st.slots = c('C_GetSlotList', count=16).get('slots', [])
    toks = []
    for sl in st.slots:   # token order by label, not by slot id (slot ids come from random serials)
        ti = c('C_GetTokenInfo', slot=sl)
        if ti['rv'] == 0 and bytes.fromhex(ti['label']).startswith(b'golden'): toks.append((bytes.fromhex(ti['label'])[:7], sl))
    free = [sl for sl in st.slots if sl not in [t[1] for t in toks]]
    st.slots = [sl for _, sl in sorted(toks)] + free
    for ti in range(2): st.pins[('so', ti)] = SO_PIN[ti]; st.pins[('user', ti)] = USER_PIN[ti]
    if len(st.slots) < 3: return st
    S0 = c('C_OpenSession', slot=st.slots[0], flags=6)['h']; S1 = c('C_OpenSession', slot=st.slots[0], flags=4)['h']; S2 = c('C_OpenSession', slot=st.slots[1], flags=6)['h']
    st.sessions = {S0: {'ti': 0, 'rw': True}, S1: {'ti': 0, 'rw': False}, S2: {'ti': 1, 'rw': True}}
    c('C_Login', s=S0, user=1, pin=USER_PIN[0].hex())
    if rnd.random() < 0.5: c('C_Login', s=S2, user=1, pin=USER_PIN[1].hex())
    for S, ti in ((S0, 0), (S2, 1)):
        if c('C_FindObjectsInit', s=S, tmpl=[])['rv'] != 0: continue
        hs = []
        while True:
            r = c('C_FindObjects', s=S, max=64)
            if r['rv'] != 0 or not r.get('objs'): break
            hs += r['objs']
        c('C_FindObjectsFinal', s=S)
        for h in hs:
            r = c('C_GetAttributeValue', s=S, o=h, tmpl=[{'t': ck.CKA_LABEL, 'buf': 64}])
            lab = bytes.fromhex(r['tmpl'][0].get('data', '')).decode('latin-1') if r['rv'] == 0 else None
            st.objs.append(FG.Obj(h, lab.split('/')[0] if lab else None, ti, token=True))
    x = mon.x
    for kind in rnd.sample(K.kinds(), 8):
        r = c('C_CreateObject', s=S0, tmpl=x.T(K.resolve(ck, K.template(kind, sensitive=rnd.random() < 0.3))))
        if r['rv'] == 0: st.objs.append(FG.Obj(r['h'], kind, 0))
    r = c('C_CreateObject', s=S0, tmpl=x.T(K.resolve(ck, K.template('aes128', label='doomed'))))
    if r['rv'] == 0: c('C_DestroyObject', s=S0, o=r['h']); st.stale.append(r['h'])
    r = c('C_OpenSession', slot=st.slots[0], flags=6)
    if r['rv'] == 0: c('C_CloseSession', s=r['h']); st.closed.append(r['h'])
    return st

def epilogue(mon, env, st):
    """well-formed calls after the hostile ones: 'a later well-formed call must not crash'"""
    ck = env['ck']; c = lambda fn, **kw: mon.call(dict(fn=fn, **kw), 'well-formed-after-hostile')
    if c('C_GetInfo')['rvname'] == 'CKR_CRYPTOKI_NOT_INITIALIZED': c('C_Initialize')
    sl = c('C_GetSlotList', count=16).get('slots', [])
    for slot in sl[:3]:
        c('C_GetTokenInfo', slot=slot); r = c('C_OpenSession', slot=slot, flags=6)
        if r['rv'] != 0: continue
        S = r['h']; c('C_GetSessionInfo', s=S)
        for pin in USER_PIN + [b'new-user-pin']:
            if c('C_Login', s=S, user=1, pin=pin.hex())['rvname'] in ('CKR_OK', 'CKR_USER_ALREADY_LOGGED_IN'): break
        c('C_DigestInit', s=S, mech={'m': ck.CKM_SHA256, 'p': None}); c('C_Digest', s=S, data='616263', buf=32)
        if c('C_FindObjectsInit', s=S, tmpl=[])['rv'] == 0:
            hs = c('C_FindObjects', s=S, max=128).get('objs', []); c('C_FindObjectsFinal', s=S)
            for h in hs:
                r = c('C_GetAttributeValue', s=S, o=h, tmpl=[{'t': ck.CKA_CLASS, 'buf': 8}, {'t': ck.CKA_KEY_TYPE, 'buf': 8}, {'t': ck.CKA_LABEL, 'buf': 64}, {'t': ck.CKA_VALUE, 'buf': 4096}])
                e = r.get('tmpl') or [{}, {}]
                if e[0].get('data') == struct.pack('<Q', ck.CKO_SECRET_KEY).hex() and e[1].get('data') == struct.pack('<Q', ck.CKK_AES).hex():
                    if c('C_EncryptInit', s=S, mech={'m': ck.CKM_AES_CBC_PAD, 'p': {'hex': '00' * 16}}, key=h)['rv'] == 0: c('C_Encrypt', s=S, data='00' * 20, buf=64)
                elif e[0].get('data') == struct.pack('<Q', ck.CKO_PRIVATE_KEY).hex() and e[1].get('data') == struct.pack('<Q', ck.CKK_RSA).hex():
                    if c('C_SignInit', s=S, mech={'m': ck.CKM_SHA256_RSA_PKCS, 'p': None}, key=h)['rv'] == 0: c('C_Sign', s=S, data='616263', buf=512)
        c('C_CloseAllSessions', slot=slot)
    c('C_Finalize')

def canonical_death(env, e, fn, tags, prefix, base, edits):
    """canonical key `<entry point>|<input class>|<death kind>@<first library frame>`; with several hostile edits the
    input class is found by ablation: the request prefix is replayed in a fresh process on a fresh clone and the base
    request is sent with ONE edit at a time; the first edit that reproduces the same death names the class."""
    sig = f'{e.kind()}@{e.where()}'
    if len(edits) > 1:
        for tag, field, val in sorted(edits, key=lambda t: t[0]):
            d = os.path.join(env['scratch'], 'abl-%d-%d' % (os.getpid(), random.getrandbits(40))); x = None
            try:
                x = new_exec(env, d, conf=clone_golden(env, d))
                for q in prefix: x.raw(q)
                x.raw(FG.Gen.apply(base, [(tag, field, val)]))
            except Died as e2:
                if f'{e2.kind()}@{e2.where()}' == sig: tags = [tag]; break
            except Hang: pass
            finally:
                if x: x.kill()
                shutil.rmtree(d, ignore_errors=True)
    cls = '+'.join(tags) if tags else 'well-formed'
    return f'{fn}|{cls}|{sig}', sig

def run_sequence(env, seed, part, keep=None):
    """one hostile sequence in its own executor on its own clone of the golden directory"""
    rnd = random.Random(seed); d = os.path.join(env['scratch'], 's%d' % seed); shutil.rmtree(d, ignore_errors=True)
    x = new_exec(env, d, conf=clone_golden(env, d)); mon = Monitor(x, env['ck'], part); cur = ('setup', [], None, [])
    ncalls = 0; hostile = 0; tagset = set(); depth = {}
    try:
        st = deep_state(mon, env, rnd)
        gen = FG.Gen(rnd, env['ck'], st, K)
        for i in range(env['ncalls']):
            req, tags, base, edits = gen.next(); cur = (req['fn'], tags, base, edits); prefix_len = len(mon.reqs)
            r = mon.call(req, '+'.join(tags) if tags else ('well-formed-after-hostile' if hostile else 'well-formed'))
            gen.observe(req, r); ncalls += 1; hostile += bool(tags)
            for t in tags: tagset.add((req['fn'], t))
            part.count('rv:' + r['rvname'])
            if r['rv'] == 0 and req['fn'] in FG.INIT_OP: depth[FG.INIT_OP[req['fn']]] = 1
        cur = ('epilogue', [], None, [])
        epilogue(mon, env, st)
    except Died as e:
        fn = e.fn or cur[0]
        if cur[0] in ('setup', 'epilogue'): key, sig = f"{fn}|{'well-formed' if cur[0] == 'setup' else 'well-formed-after-hostile'}|{e.kind()}@{e.where()}", None
        else: key, sig = canonical_death(env, e, fn, cur[1], mon.reqs[:-1], cur[2], cur[3])
        part.violation(key, f'the library terminated the host process inside {fn} ({e.kind()})',
                       {'mode': 'api', 'seed': seed, 'cfg': env['cfg'], 'backend': env['backend'], 'ncalls': env['ncalls'], 'dying_request': clip(mon.reqs[-1] if mon.reqs else None),
                        'tags': cur[1], 'note': e.note, 'stderr_tail': (e.stderr_tail or '')[-2500:], 'trace_tail': [clip(q, 80) for q in mon.reqs[-8:]]})
        part.count('deaths')
    except Hang:
        part.count('hangs'); x.kill()
        if keep is None and rerun_hangs(env, seed): part.violation(f'{cur[0]}|{"+".join(cur[1]) or "well-formed"}|hang', 'a call did not return within %d s (reproduced)' % TIMEOUT, {'mode': 'api', 'seed': seed, 'cfg': env['cfg'], 'backend': env['backend'], 'ncalls': env['ncalls'], 'request': clip(mon.reqs[-1])})
        else: part.inconc('hang not reproduced, seed %d' % seed)
    finally:
        x.kill()
    part.case(None); part.evaluations += ncalls - 1 if ncalls else 0
    for t in tagset: part.distinct.add(t)
    part.count('api_sequences'); part.count('api_calls', ncalls); part.count('api_hostile_calls', hostile); part.count('api_setup_calls', len(mon.reqs) - ncalls)
    for k in depth: part.count('api_seq_with_active_' + k)
    if len(part.samples) < 1: part.samples.append({'mode': 'api', 'seed': seed, 'cfg': env['cfg'], 'backend': env['backend'], 'requests': [clip(q, 64) for q in mon.reqs[-env['ncalls'] - 6:][:10]]})
    if keep is not None: keep['reqs'] = mon.reqs
    shutil.rmtree(d, ignore_errors=True)

def rerun_hangs(env, seed):
    p = Part(); keep = {}
    try: run_sequence(dict(env, scratch=env['scratch'] + '/rerun'), seed, p, keep=keep)
    except Exception: return False
    return p.counters.get('hangs', 0) > 0

# ------------------------------------------------------------------------------------------------ (b) file fuzz
PROBE_ATTRS = FG.BOOL_ATTRS + FG.ULONG_ATTRS + FG.BYTES_ATTRS + FG.MECHLIST_ATTRS
def recovery_probe(mon, env, cls):
    """fixed well-formed program run in a fresh process on the mutated directory: Initialize, slot list, token info of all
    slots, open session, login with both PINs, find all, read all attributes of each object, use each key once, Finalize.
    Any return code is acceptable; dying is not."""
    ck = env['ck']; x = mon.x; c = lambda fn, **kw: mon.call(dict(fn=fn, **kw), cls); used = 0
    if c('C_Initialize', locking='os')['rv'] != 0:
        c('C_GetSlotList', count=16); c('C_Finalize'); return 0
    c('C_GetInfo'); n = c('C_GetSlotList', null=True).get('n', 0); slots = c('C_GetSlotList', count=max(16, min(n, 256))).get('slots', [])
    u64 = lambda v: struct.pack('<Q', v).hex()
    for slot in slots[:6]:
        c('C_GetSlotInfo', slot=slot); ti = c('C_GetTokenInfo', slot=slot); c('C_GetMechanismList', slot=slot, count=128)
        r = c('C_OpenSession', slot=slot, flags=6)
        if r['rv'] != 0: continue
        S = r['h']; c('C_GetSessionInfo', s=S)
        for pin in SO_PIN: 
            if c('C_Login', s=S, user=0, pin=pin.hex())['rv'] == 0: c('C_Logout', s=S); break
        for pin in USER_PIN:
            if c('C_Login', s=S, user=1, pin=pin.hex())['rv'] == 0: break
        # session helper keys
        r = c('C_CreateObject', s=S, tmpl=x.T(K.resolve(ck, K.template('aes128', label='probe-aes')))); haes = r['h'] if r['rv'] == 0 else 0
        hs = []
        if c('C_FindObjectsInit', s=S, tmpl=[])['rv'] == 0:
            while len(hs) < 400:
                r = c('C_FindObjects', s=S, max=64)
                if r['rv'] != 0 or not r.get('objs'): break
                hs += r['objs']
            c('C_FindObjectsFinal', s=S)
        for h in hs:
            if h == haes: continue
            q = c('C_GetAttributeValue', s=S, o=h, tmpl=[{'t': ck[a], 'buf': None} for a in PROBE_ATTRS])
            sizes = [(e.get('len', -1) if isinstance(e.get('len'), int) else -1) for e in q.get('tmpl', [])] or [-1] * len(PROBE_ATTRS)
            got = c('C_GetAttributeValue', s=S, o=h, tmpl=[{'t': ck[a], 'buf': (min(n, 1 << 20) if n >= 0 else 16)} for a, n in zip(PROBE_ATTRS, sizes)])
            vals = {a: e.get('data') for a, e in zip(PROBE_ATTRS, got.get('tmpl', [])) if isinstance(e.get('len'), int) and e.get('len', -1) >= 0}
            for a in FG.ARRAY_ATTRS:
                c('C_GetAttributeValue', s=S, o=h, tmpl=[{'t': ck[a], 'buf': None}]); c('C_GetAttributeValue', s=S, o=h, tmpl=[{'t': ck[a], 'tmpl': [{'t': 0, 'buf': 64} for _ in range(8)]}])
            c('C_GetObjectSize', s=S, o=h)
            cl = vals.get('CKA_CLASS'); kt = vals.get('CKA_KEY_TYPE'); lab = bytes.fromhex(vals.get('CKA_LABEL') or '').decode('latin-1').split('/')[0]
            kcs = set()
            if cl == u64(ck.CKO_SECRET_KEY): kcs.add({u64(ck.CKK_AES): 'aes', u64(ck.CKK_DES3): 'des3', u64(ck.CKK_DES2): 'des3', u64(ck.CKK_DES): 'des3', u64(ck.CKK_GENERIC_SECRET): 'generic'}.get(kt, 'generic'))
            elif cl in (u64(ck.CKO_PRIVATE_KEY), u64(ck.CKO_PUBLIC_KEY)):
                kcs.add({u64(ck.CKK_RSA): 'rsa', u64(ck.CKK_EC): 'ec', u64(ck.CKK_EC_EDWARDS): 'ed', u64(ck.CKK_DSA): 'dsa', u64(ck.CKK_DH): 'dh'}.get(kt, 'rsa') + ('-priv' if cl == u64(ck.CKO_PRIVATE_KEY) else '-pub'))
            lk = FG.kclass(lab) if lab in K.kinds() else None
            if lk and lk not in ('cert', 'data', 'params', 'unknown'): kcs.add('des3' if lk in ('des2', 'des') else lk)   # what the application believes the key is
            for kc in sorted(kcs): use_key(c, ck, S, h, kc, haes); used += 1
            r = c('C_CopyObject', s=S, o=h, tmpl=x.T([('CKA_TOKEN', False), ('CKA_LABEL', b'probe-copy')]))
            if r['rv'] == 0: c('C_DestroyObject', s=S, o=r['h'])
            c('C_SetAttributeValue', s=S, o=h, tmpl=x.T([('CKA_LABEL', (lab or 'relabelled').encode('latin-1'))]))
            if vals.get('CKA_ID') is not None: c('C_FindObjectsInit', s=S, tmpl=[{'t': ck.CKA_ID, 'hex': vals['CKA_ID'][:512]}]); c('C_FindObjects', s=S, max=8); c('C_FindObjectsFinal', s=S)
        c('C_Logout', s=S); c('C_CloseSession', s=S)
    c('C_Finalize')
    return used

def use_key(c, ck, S, h, kc, haes):
    M = lambda n, p=None: {'m': ck[n], 'p': p}; msg = '00112233445566778899aabbccddeeff' * 2; R = K.RAW
    def enc_dec(m, p, n):
        if c('C_EncryptInit', s=S, mech=M(m, p), key=h)['rv'] == 0:
            r = c('C_Encrypt', s=S, data=msg[:2 * n], buf=1024); ct = (r.get('out') or {}).get('data', '') if r['rv'] == 0 else '00' * 32
        else: ct = '00' * 32
        if c('C_DecryptInit', s=S, mech=M(m, p), key=h)['rv'] == 0: c('C_Decrypt', s=S, data=ct, buf=1024)
    def sign(m, p=None, n=32, size=1024):
        if c('C_SignInit', s=S, mech=M(m, p), key=h)['rv'] == 0: return c('C_Sign', s=S, data=msg[:2 * n], buf=size)
    def verify(m, p=None, n=32, siglen=64):
        if c('C_VerifyInit', s=S, mech=M(m, p), key=h)['rv'] == 0: c('C_Verify', s=S, data=msg[:2 * n], sig='5a' * siglen)
    derive_t = [{'t': ck.CKA_CLASS, 'ulong': ck.CKO_SECRET_KEY}, {'t': ck.CKA_KEY_TYPE, 'ulong': ck.CKK_GENERIC_SECRET}, {'t': ck.CKA_TOKEN, 'bool': False}, {'t': ck.CKA_SENSITIVE, 'bool': False}, {'t': ck.CKA_EXTRACTABLE, 'bool': True}]
    if kc == 'aes':
        enc_dec('CKM_AES_CBC_PAD', {'hex': '01' * 16}, 20); enc_dec('CKM_AES_GCM', {'gcm': {'iv': '02' * 12, 'aad': '03' * 4, 'tagbits': 128}}, 20); sign('CKM_AES_CMAC')
        if haes: c('C_WrapKey', s=S, mech=M('CKM_AES_KEY_WRAP_PAD'), wkey=h, key=haes, buf=256)
        c('C_DeriveKey', s=S, mech=M('CKM_AES_ECB_ENCRYPT_DATA', {'kdstr': '04' * 16}), key=h, tmpl=derive_t)
    elif kc == 'des3': enc_dec('CKM_DES3_CBC_PAD', {'hex': '01' * 8}, 20); sign('CKM_DES3_CMAC')
    elif kc == 'generic': sign('CKM_SHA256_HMAC'); verify('CKM_SHA_1_HMAC', siglen=20); c('C_DigestInit', s=S, mech=M('CKM_SHA256')); c('C_DigestKey', s=S, key=h); c('C_DigestFinal', s=S, buf=64)
    elif kc == 'rsa-priv':
        sign('CKM_SHA256_RSA_PKCS'); sign('CKM_RSA_PKCS_PSS', {'pss': {'hash': ck.CKM_SHA256, 'mgf': ck.CKG_MGF1_SHA256, 'slen': 32}}); sign('CKM_RSA_X_509', n=16)
        for n in (128, 256):
            if c('C_DecryptInit', s=S, mech=M('CKM_RSA_PKCS'), key=h)['rv'] == 0: c('C_Decrypt', s=S, data='00' + '5a' * (n - 1), buf=512)
        c('C_UnwrapKey', s=S, mech=M('CKM_RSA_PKCS'), ukey=h, wrapped='00' + '5a' * 127, tmpl=derive_t[:2] + derive_t[2:3])
    elif kc == 'rsa-pub':
        verify('CKM_SHA256_RSA_PKCS', siglen=128); verify('CKM_SHA1_RSA_PKCS_PSS', {'pss': {'hash': ck.CKM_SHA_1, 'mgf': ck.CKG_MGF1_SHA1, 'slen': 20}}, siglen=256)
        for m, p in (('CKM_RSA_PKCS', None), ('CKM_RSA_PKCS_OAEP', {'oaep': {'hash': ck.CKM_SHA_1, 'mgf': ck.CKG_MGF1_SHA1, 'source': 1}})):
            if c('C_EncryptInit', s=S, mech=M(m, p), key=h)['rv'] == 0: c('C_Encrypt', s=S, data=msg[:32], buf=512)
        if haes: c('C_WrapKey', s=S, mech=M('CKM_RSA_PKCS'), wkey=h, key=haes, buf=512)
    elif kc == 'ec-priv':
        sign('CKM_ECDSA')
        for peer in ('ec_p256b', 'ec_p384b', 'ec_p521b'): c('C_DeriveKey', s=S, mech=M('CKM_ECDH1_DERIVE', {'ecdh1': {'kdf': 1, 'public': R[peer]['CKA_EC_POINT']}}), key=h, tmpl=derive_t)
    elif kc == 'ec-pub': verify('CKM_ECDSA', siglen=64); verify('CKM_ECDSA', siglen=132)
    elif kc == 'ed-priv': sign('CKM_EDDSA'); c('C_DeriveKey', s=S, mech=M('CKM_ECDH1_DERIVE', {'ecdh1': {'kdf': 1, 'public': R['ed25519b']['CKA_EC_POINT']}}), key=h, tmpl=derive_t)
    elif kc == 'ed-pub': verify('CKM_EDDSA', siglen=64)
    elif kc == 'dsa-priv': sign('CKM_DSA_SHA1'); sign('CKM_DSA', n=20)
    elif kc == 'dsa-pub': verify('CKM_DSA_SHA256', siglen=40); verify('CKM_DSA', n=20, siglen=40)
    elif kc == 'dh-priv': c('C_DeriveKey', s=S, mech=M('CKM_DH_PKCS_DERIVE', {'hex': R['dh1024b']['CKA_VALUE']}), key=h, tmpl=derive_t)
    if kc.endswith('-priv') and haes: c('C_WrapKey', s=S, mech=M('CKM_AES_KEY_WRAP_PAD'), wkey=haes, key=h, buf=4096)   # PKCS#8 encoding of whatever the file now says

def token_dirs(d): return sorted(os.path.join(d, 'tokens', t) for t in os.listdir(os.path.join(d, 'tokens')))
def read_label(tokdir, backend):
    try:
        if backend == 'file':
            b = open(os.path.join(tokdir, 'token.object'), 'rb').read()
            for (s0, e0, t, k) in FG.walk_objfile(b)[1]:
                if t == 0x80005349: return b[s0 + 24:e0]
        else:
            con = sqlite3.connect(os.path.join(tokdir, 'sqlite3.db')); row = con.execute('select value from attribute_binary where type=?', (0x80005349,)).fetchone(); con.close(); return bytes(row[0]) if row else b''
    except Exception: return b''
    return b''

def mutate_db(rnd, path):
    """one hostile edit of the SQLite token database: raw (header / page bytes) or SQL-level (rows of the attribute tables)"""
    r = rnd; c = r.randrange(16); b = bytearray(open(path, 'rb').read()); n = len(b); ps = struct.unpack('>H', b[16:18])[0] if n >= 18 else 4096; ps = 65536 if ps == 1 else (ps or 4096)
    def wr(x): open(path, 'wb').write(bytes(x))
    if c == 0:
        for _ in range(r.choice([1, 2, 8, 64])): i = r.randrange(n); b[i] ^= 1 << r.randrange(8)
        wr(b); return 'raw:bitflip'
    if c == 1: i = r.randrange(100); b[i] = r.choice([0, 1, 0xff, 0x80]); wr(b); return 'raw:header-byte'
    if c == 2: wr(b[:r.choice([0, 1, 16, 99, 100, 101, ps - 1, ps, ps + 1, n - 1, n - ps, r.randrange(n)])]); return 'raw:truncate'
    if c == 3: p = r.randrange(max(1, n // ps)); b[p * ps:(p + 1) * ps] = bytes(ps) if r.random() < 0.5 else r.randbytes(ps); wr(b); return 'raw:page-wipe'
    if c == 4: wr(b + r.randbytes(r.choice([1, 100, ps, ps + 1]))); return 'raw:append'
    if c == 5:
        p = r.randrange(max(1, n // ps)); o = p * ps + (100 if p == 0 else 0)   # b-tree page header: type, freeblock, cell count, content start
        for i in range(8): 
            if r.random() < 0.4 and o + i < n: b[o + i] = r.choice([0, 0xff, 0x0d, 0x05, 0x02, 0x0a, r.randrange(256)])
        wr(b); return 'raw:page-header'
    if c == 6: wr(r.choice([b'', b'SQLite format 3\x00', r.randbytes(4096), bytes(4096)])); return 'raw:replaced'
    con = sqlite3.connect(path); cur = con.cursor(); lab = 'sql:noop'
    try:
        T = ['attribute_binary', 'attribute_boolean', 'attribute_integer', 'attribute_array', 'attribute_text', 'attribute_datetime', 'attribute_real']
        def somerow(t):
            rows = cur.execute(f'select id from {t}').fetchall(); return r.choice(rows)[0] if rows else None
        if c == 7:
            t = r.choice(T[:4]); i = somerow(t)
            if i is not None: cur.execute(f'update {t} set type=? where id=?', (r.choice([0, 0x100, 0x11, 0x161, 0x120, 0x40000211, 0x40000600, 0x8000534A, 0x8000534C, 0xFFFFFFFF, -1, (1 << 63) - 1]), i)); lab = 'sql:type-swap'
        elif c == 8:
            i = somerow('attribute_binary')
            if i is not None: m = r.choice([0, 1, 2, 100, 65536]); cur.execute('update attribute_binary set value=? where id=?', (r.choice([None, r.randbytes(m), bytes(m)]), i)); lab = 'sql:binary-value'
        elif c == 9:
            i = somerow('attribute_integer')
            if i is not None: cur.execute('update attribute_integer set value=? where id=?', (r.choice([0, 1, 2, 3, 4, 5, -1, 0x1f, 1 << 31, 1 << 32, (1 << 63) - 1, -(1 << 63), None, 'text', b'blob', 1.5]), i)); lab = 'sql:integer-value'
        elif c == 10:
            i = somerow('attribute_array')
            if i is not None:
                v = bytearray(cur.execute('select value from attribute_array where id=?', (i,)).fetchone()[0] or b''); k = r.randrange(6)
                if k == 0 and v: v = v[:r.randrange(len(v))]
                elif k == 1 and len(v) >= 8: o = r.randrange(0, len(v) - 7); v[o:o + 8] = struct.pack('<Q', r.choice([0, 1, len(v), 1 << 31, 1 << 63, FG.U64, FG.U64 - 7, FG.U64 - 15, FG.U64 - (len(v) - o - 8) + 1]))
                elif k == 2 and len(v) >= 12: v[8:12] = struct.pack('<I', r.choice([0, 1, 2, 3, 4, 5, 6, 0xff, 0xFFFFFFFF]))
                elif k == 3: v += r.randbytes(r.choice([1, 7, 8, 9, 100]))
                elif k == 4 and v: 
                    for _ in range(r.choice([1, 4])): j = r.randrange(len(v)); v[j] ^= 1 << r.randrange(8)
                else: v = bytearray(r.randbytes(r.choice([1, 8, 12, 13, 20, 21, 100])))
                cur.execute('update attribute_array set value=? where id=?', (bytes(v), i)); lab = 'sql:array-blob'
        elif c == 11:
            i = somerow('attribute_boolean')
            if i is not None: cur.execute('update attribute_boolean set value=? where id=?', (r.choice([2, -1, 255, None, 'x', b'\x01', 1 << 40]), i)); lab = 'sql:boolean-value'
        elif c == 12:
            k = r.randrange(4)
            if k == 0: cur.execute('delete from object where id=?', (r.randrange(1, 40),))
            elif k == 1: cur.execute(f'delete from {r.choice(T[:4])} where object_id=?', (r.randrange(1, 40),))
            elif k == 2: cur.execute(f'update {r.choice(T[:4])} set object_id=? where object_id=?', (r.choice([0, -1, 9999, 1, 2]), r.randrange(1, 40)))
            else: cur.execute('insert into object default values')
            lab = 'sql:row-structure'
        elif c == 13:
            t = r.choice(T[:4]); i = somerow(t)
            if i is not None: cur.execute(f'insert into {t} (value, type, object_id) select value, type, object_id from {t} where id=?', (i,)); lab = 'sql:duplicate-row'
        elif c == 14:
            k = r.randrange(4)
            if k == 0: cur.execute(f'drop table {r.choice(T + ["object"])}')
            elif k == 1: cur.execute(f'alter table {r.choice(T[:4])} rename to renamed_x')
            elif k == 2: cur.execute('pragma user_version = %d' % r.choice([0, 1, 2, 99, -1]))
            else: cur.execute(f'delete from {r.choice(T[:4])}')
            lab = 'sql:schema'
        else:
            # kind confusion: store an attribute in the table of another kind (CKA_VALUE as boolean, CKA_CLASS as binary, ...)
            src, dst = r.sample(T[:4], 2); i = somerow(src)
            if i is not None:
                row = cur.execute(f'select type, object_id from {src} where id=?', (i,)).fetchone(); val = {'attribute_binary': r.randbytes(8), 'attribute_boolean': 1, 'attribute_integer': r.choice([0, 3, 1 << 40]), 'attribute_array': r.randbytes(21)}[dst]
                cur.execute(f'insert into {dst} (value, type, object_id) values (?,?,?)', (val, row[0], row[1]))
                if r.random() < 0.5: cur.execute(f'delete from {src} where id=?', (i,))
                lab = 'sql:kind-confusion'
        con.commit()
    except sqlite3.Error as e: lab = 'sql:noop'
    finally: con.close()
    return lab

def file_case(env, idx, part):
    seed = env['seed'] * 1000003 + idx; rnd = random.Random(seed); r = rnd; d = os.path.join(env['scratch'], 'f%d' % idx); shutil.rmtree(d, ignore_errors=True)
    conf = clone_golden(env, d); be = env['backend']; toks = token_dirs(d); toks.sort(key=lambda t: read_label(t, be)); t0 = toks[0]; info = {}
    c = r.random()
    try:
        if c < 0.13:
            lab, data = FG.mutate_conf(r, open(conf).read(), d); open(conf, 'wb').write(data); cls = 'conf:' + lab
        elif c < 0.21: cls = 'dir:' + mutate_dir(r, d, toks, be)
        elif be == 'file':
            tok = r.choice(toks) if r.random() < 0.3 else t0
            if c < 0.27:
                other = [t for t in toks if t != tok][0]; k = r.randrange(4); b = open(os.path.join(tok, 'token.object'), 'rb').read()
                if k == 3:   # the same serial on both tokens
                    ob = open(os.path.join(other, 'token.object'), 'rb').read(); ser = [ob[s0 + 24:e0] for (s0, e0, t, kk) in FG.walk_objfile(ob)[1] if t == FG.CKA_OS_TOKENSERIAL][0]
                else: ser = [b'%016x' % len(toks), b'%016x' % ((1 << 31) + len(toks)), r.choice([b'', b'zz', b'0' * 15 + b'g', b'f' * 16, b'1' * 64])][k]   # the free slot's id is the number of tokens
                nb = FG.set_token_serial(b, ser); open(os.path.join(tok, 'token.object'), 'wb').write(nb if nb else b); cls = 'token.object:serial-' + ['collides-free-slot', 'collides-free-slot-bit31', 'odd', 'collides-other-token'][k]
            else:
                names = sorted(os.listdir(tok)); objs = [n for n in names if n.endswith('.object') and n != 'token.object']
                if c < 0.45: name = 'token.object'; kind = 'token.object'
                elif c < 0.49: name = 'generation'; kind = 'generation'
                else: name = r.choice(objs); kind = 'object'
                p = os.path.join(tok, name); b = open(p, 'rb').read() if os.path.exists(p) else b''
                otherf = open(os.path.join(r.choice(toks), r.choice(objs + ['token.object'])), 'rb').read() if objs else None
                lab, data = FG.mutate_objfile(r, b, otherf); open(p, 'wb').write(data); cls = '%s:%s' % (kind, lab); info = {'file': name, 'size': len(data)}
                if len(data) <= 2048: info['hex'] = data.hex()
        else:
            tok = r.choice(toks) if r.random() < 0.3 else t0; cls = 'db:' + mutate_db(r, os.path.join(tok, 'sqlite3.db'))
    except Exception as e:
        part.inconc('mutation failed: %r' % (e,)); shutil.rmtree(d, ignore_errors=True); return
    cls = 'file/' + cls
    x = new_exec(env, d, conf=conf); mon = Monitor(x, env['ck'], part); used = 0
    try: used = recovery_probe(mon, env, cls)
    except Died as e:
        part.violation(f'{e.fn}|{cls}|{e.kind()}@{e.where()}', f'after a mutation of the stored files ({cls}) the library terminated the host process inside {e.fn} ({e.kind()})',
                       {'mode': 'file', 'seed': env['seed'], 'index': idx, 'cfg': env['cfg'], 'backend': be, 'mutation': cls, 'info': info, 'note': e.note, 'stderr_tail': (e.stderr_tail or '')[-2500:], 'trace_tail': [clip(q, 80) for q in mon.reqs[-6:]]})
        part.count('deaths')
    except Hang:
        part.count('hangs'); part.violation(f'{(mon.reqs[-1] or {}).get("fn")}|{cls}|hang', 'a probe call did not return within %d s' % TIMEOUT, {'mode': 'file', 'seed': env['seed'], 'index': idx, 'cfg': env['cfg'], 'backend': be, 'mutation': cls, 'info': info})
    finally: x.kill()
    part.case(cls, nontrivial=True); part.count('file_cases'); part.count('file_probe_calls', len(mon.reqs)); part.count('file_keys_used', used); part.count('mut:' + cls.split(':')[0])
    if len(part.samples) < 2 and idx % 7 == 0: part.samples.append({'mode': 'file', 'index': idx, 'backend': be, 'mutation': cls, 'info': {k: v for k, v in info.items() if k != 'hex'}, 'probe_calls': len(mon.reqs)})
    shutil.rmtree(d, ignore_errors=True)

def mutate_dir(r, d, toks, be):
    tok = r.choice(toks); c = r.randrange(10); names = sorted(os.listdir(tok)); objs = [n for n in names if n.endswith('.object') and n != 'token.object']
    main_file = 'token.object' if be == 'file' else 'sqlite3.db'
    if c == 0: os.unlink(os.path.join(tok, main_file)); return 'token-file-missing'
    if c == 1: os.unlink(os.path.join(tok, main_file)); os.mkdir(os.path.join(tok, main_file)); return 'token-file-is-directory'
    if c == 2: shutil.rmtree(tok); open(tok, 'wb').write(b'not a directory'); return 'token-dir-is-file'
    if c == 3: os.mkdir(os.path.join(d, 'tokens', r.choice(['x', 'not-a-uuid', 'A' * 200, '00000000-0000-0000-0000-000000000000']))); return 'extra-empty-token-dir'
    if c == 4 and objs: n = r.choice(objs); os.unlink(os.path.join(tok, n)); os.mkdir(os.path.join(tok, n)); return 'object-is-directory'
    if c == 5 and objs: n = r.choice(objs); os.unlink(os.path.join(tok, n)); os.symlink(n, os.path.join(tok, n)); return 'object-symlink-loop'
    if c == 6: shutil.copytree(tok, tok + '-copy'); return 'token-dir-duplicated'
    if c == 7 and objs: n = r.choice(objs); shutil.copy(os.path.join(tok, n), os.path.join(tok, r.choice(['x.object', '.object', 'A' * 200 + '.object', n.replace('.object', '-2.object')]))); return 'object-copied-under-odd-name'
    if c == 8: os.chmod(os.path.join(tok, main_file), 0); return 'token-file-unreadable'   # (root ignores modes: then a no-op, still a case)
    if be == 'file' and objs:
        other = [t for t in toks if t != tok][0]; n = r.choice(objs); shutil.copy(os.path.join(tok, n), os.path.join(other, n)); return 'object-moved-to-other-token'
    open(os.path.join(d, 'tokens', 'stray-file'), 'wb').write(b'x'); return 'stray-file-in-tokendir'
