#!/usr/bin/env python3
"""C15 - processes sharing a token directory see each other's committed changes (file back-end).
(i) call granularity: the orchestrator serialises the calls of 2-3 executor processes on one token
    directory; all interleavings of short scripts are enumerated; after a committed create / set /
    destroy by one process the NEXT call of every other process must observe it (exact expectation);
(ii) file-operation granularity: the processes run freely and concurrently, with PRNG delays injected
    before/after their file-system operations; every write carries a unique value; a history checker
    over the per-process logs (one system-wide monotonic clock) decides reads and the final state."""
import sys, os, shutil, itertools, random, collections
sys.path.insert(0, os.path.join(os.path.dirname(os.path.abspath(__file__)), '..', 'vlib'))
from harness import main, Part, pmap, SAN_ENV
from p11client import Exec, Died, Hang, mkconf

SO, USER = b'so-pin-15', b'user-pin-15'

def start(paths, ck, cfg, d, n):
    env = dict(SAN_ENV)
    x = Exec(paths[cfg]['exe'], paths[cfg]['lib'], os.path.join(d, 'softhsm2.conf'), ck, env=env, stderr=f'{d}/stderr-p{n}-{len(os.listdir(d))}.log'); x.timeout = 180
    return x

def prepare(paths, ck, d, backend='file'):
    mkconf(d, backend); x = start(paths, ck, 'plain' if 'plain' in paths else 'asan', d, 99)
    assert x.call('C_Initialize', locking='os')['rv'] == 0
    slot = x.call('C_GetSlotList', count=8)['slots'][-1]
    assert x.call('C_InitToken', slot=slot, pin=SO.hex(), label=b'tok15'.hex())['rv'] == 0
    s = x.call('C_OpenSession', slot=slot)['h']
    assert x.call('C_Login', s=s, user=0, pin=SO.hex())['rv'] == 0 and x.call('C_InitPIN', s=s, pin=USER.hex())['rv'] == 0
    x.call('C_Finalize'); x.close()

def attach(x):
    assert x.call('C_Initialize', locking='os')['rv'] == 0
    slot = [sl for sl in x.call('C_GetSlotList', count=8)['slots'] if x.call('C_GetTokenInfo', slot=sl)['flags'] & x.ck.CKF_TOKEN_INITIALIZED][0]
    s = x.call('C_OpenSession', slot=slot)['h']; assert x.call('C_Login', s=s, user=1, pin=USER.hex())['rv'] == 0
    return s

def obj_value(label, big=False): return (b'V' * 16 + label) * (400 if big else 1)      # big: ~10 KiB, the object file is rewritten with several write() calls
def obj_tmpl(x, label, ident, private, big=False, value=None, **extra):
    ck = x.ck
    a = {'CKA_CLASS': ck.CKO_SECRET_KEY, 'CKA_KEY_TYPE': ck.CKK_GENERIC_SECRET, 'CKA_TOKEN': True, 'CKA_PRIVATE': private, 'CKA_LABEL': label, 'CKA_ID': ident, 'CKA_VALUE': value if value is not None else obj_value(label, big), 'CKA_SENSITIVE': False, 'CKA_EXTRACTABLE': True}
    a.update(extra); return x.T(a)

# ------------------------------------------------------------------ (i) call granularity
OPS = ['create', 'set', 'destroy', 'find', 'get']
def serial_job(job):
    from ck import CK
    ck = CK(job['hdr']); part = Part(); rnd = random.Random(job['seed']); d = os.path.join(job['scratch'], 'ser-%d' % job['seed']); shutil.rmtree(d, ignore_errors=True); os.makedirs(d)
    X = []; be = ''
    try:
        prepare(job['paths'], ck, d, job.get('backend', 'file')); nproc = job['nproc']; be = '' if job.get('backend', 'file') == 'file' else ',db'
        X = [start(job['paths'], ck, job['cfg'], d, i) for i in range(nproc)]; S = [attach(x) for x in X]
        # model: label -> {'id': bytes, 'private': bool}; per process: known handles label -> handle
        model = {}; handles = [dict() for _ in range(nproc)]; counter = [0]
        def refresh_handle(p, label):
            rvn, hs = X[p].findall(S[p], {'CKA_LABEL': label}); return hs
        def stale(fn, rvn, case, oplog):
            """a call through a handle whose object another process destroyed (the label may exist again as ANOTHER object) must say CKR_OBJECT_HANDLE_INVALID"""
            if rvn == 'CKR_OBJECT_HANDLE_INVALID': return
            if be: part.violation(f'{fn}|handle-of-object-destroyed-by-other-process,db|not-invalidated', 'db back-end: a handle whose object another process destroyed has not become invalid', {'case': case, 'rv': rvn, 'oplog': oplog})
            elif fn == 'C_GetAttributeValue': part.violation(f'C_GetAttributeValue|handle-of-object-destroyed-by-other-process|{rvn}', 'a handle whose object another process destroyed has not become invalid', {'case': case, 'oplog': oplog})
            else: part.violation(f'{fn}|handle-of-object-destroyed-by-other-process|accepted' if rvn == 'CKR_OK' else f'{fn}|handle-of-object-destroyed-by-other-process|{rvn}', 'a handle whose object another process destroyed is still accepted', {'case': case, 'oplog': oplog})
        for case in range(job['cases']):
            # scripts: each process a few ops on two shared labels; a random interleaving (quick) — enumeration happens over cases via the seed
            labels = [b'L%d-a' % case, b'L%d-b' % case]; scripts = [[(rnd.choice(OPS), rnd.choice(labels)) for _ in range(rnd.randrange(1, 4))] for _ in range(nproc)]
            order = [p for p in range(nproc) for _ in scripts[p]]
            rnd.shuffle(order); idx = [0] * nproc; shape = []; oplog = []
            for p in order:
                op, label = scripts[p][idx[p]]; idx[p] += 1; x = X[p]; s = S[p]; exists = label in model; shape.append((p, op, exists)); oplog.append((p, op, label.decode(), exists))
                cur = model[label]['inc'] if exists else None                     # handles are remembered with the incarnation of the label they were issued for
                def lookup():
                    """the process's handle for the label: a remembered one (possibly of an earlier incarnation) or a fresh search; -> (handle, incarnation) or None"""
                    hi = handles[p].get(label)
                    if hi is not None: return hi
                    hs = refresh_handle(p, label)
                    if exists and len(hs) != 1: part.violation(f'C_FindObjects|after-other-process-create{be}|found-{len(hs)}', 'an object committed by another process is not found (exactly once) at the next call', {'case': case, 'label': label.decode(), 'oplog': oplog}); return None
                    if not exists and hs: part.violation(f'C_FindObjects|after-other-process-destroy{be}|found-{len(hs)}', 'a search does not reflect what another process committed before this call', {'case': case, 'label': label.decode(), 'oplog': oplog}); return None
                    if not hs: return None
                    handles[p][label] = (hs[0], cur); return handles[p][label]
                if op == 'create':
                    if exists: continue
                    counter[0] += 1; ident = b'p%d:%d' % (p, counter[0]); priv = rnd.random() < 0.5
                    val = obj_value(label + b'#' + ident)          # the value names the incarnation: a re-created label must not show an earlier incarnation's value
                    r = x.call('C_CreateObject', s=s, tmpl=obj_tmpl(x, label, ident, priv, value=val))
                    if r['rv'] == 0: model[label] = {'id': ident, 'private': priv, 'value': val, 'inc': ident}; handles[p][label] = (r['h'], ident)
                    else: part.observe('create failed', r['rvname'])
                elif op == 'set':
                    hi = lookup()
                    if hi is None: continue
                    h, inc = hi; counter[0] += 1; ident = b'p%d:%d' % (p, counter[0])
                    r = x.call('C_SetAttributeValue', s=s, o=h, tmpl=x.T({'CKA_ID': ident}))
                    if exists and inc == cur:
                        if r['rv'] == 0: model[label]['id'] = ident
                        else: part.observe('set on a live object failed', r['rvname'])
                    else: stale('C_SetAttributeValue', r['rvname'], case, oplog); handles[p].pop(label, None)
                elif op == 'destroy':
                    hi = lookup()
                    if hi is None: continue
                    h, inc = hi; r = x.call('C_DestroyObject', s=s, o=h); handles[p].pop(label, None)
                    if exists and inc == cur:
                        if r['rv'] == 0: del model[label]
                        else: part.observe('destroy of a live object failed', r['rvname'])
                    else: stale('C_DestroyObject', r['rvname'], case, oplog)
                elif op == 'find':
                    hs = refresh_handle(p, label)
                    if len(hs) != (1 if exists else 0):
                        part.violation(f'C_FindObjects|{"after-other-process-create" if exists else "after-other-process-destroy"}{be}|found-{len(hs)}', 'a search does not reflect what another process committed before this call', {'case': case, 'label': label.decode(), 'oplog': oplog})
                    elif hs: handles[p][label] = (hs[0], cur)
                elif op == 'get':
                    hi = handles[p].get(label)
                    if hi is None: continue
                    h, inc = hi; rvn, vals = x.getattrs(s, h, ['CKA_ID', 'CKA_VALUE'])
                    if exists and inc == cur:
                        if vals.get('CKA_ID') != model[label]['id']:
                            part.violation(f'C_GetAttributeValue|after-other-process-set{be}|stale-or-wrong-value', 'an attribute changed by another process is not seen at the next call', {'case': case, 'got': vals.get('CKA_ID'), 'want': model[label]['id'], 'rv': rvn, 'oplog': oplog})
                        elif vals.get('CKA_VALUE') != model[label]['value']:
                            part.violation(f'C_GetAttributeValue|after-other-process-recreate{be}|value-of-an-earlier-object', 'a handle shows the current CKA_ID of a label together with the CKA_VALUE of an object another process destroyed (attributes of two objects mixed)', {'case': case, 'got': (vals.get('CKA_VALUE') or b'')[:48], 'want': model[label]['value'][:48], 'rv': rvn, 'oplog': oplog})
                    else: stale('C_GetAttributeValue', rvn, case, oplog); handles[p].pop(label, None)
            part.case(('serial' + be, tuple((op, ex) for (p, op, ex) in shape), tuple(p for (p, _, _) in shape)), sample={'interleaving': [(p, op, 'exists' if ex else 'absent') for (p, op, ex) in shape]} if case == 0 else None)
            # tidy: destroy the case's objects through process 0 so the directory stays small
            for label in list(model):
                hs = refresh_handle(0, label)
                for h in hs: X[0].call('C_DestroyObject', s=S[0], o=h)
                del model[label]
            for hp in handles: hp.clear()
        for x in X: x.call('C_Finalize'); x.close()
        X = []
    except AssertionError as e: part.inconc(f'setup failed: {e!r}')
    except Died as ex:
        if job.get('deaths') == 'violation':        # C17 runs these interleavings too: there a death IS the verdict (key prefix DEATH|, everything else in this Part is ignored by C17)
            part.violation('DEATH|%s|multi-process:serialised-interleaving%s|%s@%s' % (ex.fn, be, ex.kind(), ex.where()), f'the library terminated a host process inside {ex.fn} while several processes shared the token',
                           {'mode': 'multi-process', 'seed': job['seed'], 'backend': job.get('backend', 'file'), 'nproc': job['nproc'], 'note': ex.note, 'stderr_tail': (ex.stderr_tail or '')[-1800:]})
        else: part.observe('side:C17 library terminated the host', {'kind': ex.kind(), 'fn': ex.fn}); part.inconc(f'executor died: {ex}')
    except Hang: part.inconc('hang in serialised run')
    finally:
        for x in X: x.kill()
        shutil.rmtree(d, ignore_errors=True)
    return part

# ------------------------------------------------------------------ (i-b) the NEXT call may be anything: every entry point that takes the object must see the change
def observer_job(job):
    """B warms its view of object K with call kind X; A commits a change (an attribute that decides X's answer, or destruction); B's very next call is X again."""
    from ck import CK
    ck = CK(job['hdr']); part = Part(); d = os.path.join(job['scratch'], 'obs-%d' % job['seed']); shutil.rmtree(d, ignore_errors=True); os.makedirs(d)
    X = []
    try:
        prepare(job['paths'], ck, d); X = [start(job['paths'], ck, job['cfg'], d, i) for i in range(2)]; S = [attach(x) for x in X]; A, B = X; sA, sB = S
        wk = A.call('C_CreateObject', s=sA, tmpl=A.T({'CKA_CLASS': ck.CKO_SECRET_KEY, 'CKA_KEY_TYPE': ck.CKK_AES, 'CKA_TOKEN': True, 'CKA_PRIVATE': False, 'CKA_LABEL': b'WRAPPER', 'CKA_VALUE': bytes(range(16)), 'CKA_WRAP': True, 'CKA_ENCRYPT': True, 'CKA_SENSITIVE': False, 'CKA_EXTRACTABLE': True}))
        assert wk['rv'] == 0
        KINDS = {   # observer call: (request builder given (x, s, h, wrapper handle), attribute change that must make it fail)
            'C_WrapKey(as wrapped key)': (lambda x, s, h, w: dict(fn='C_WrapKey', s=s, mech=x.M('CKM_AES_KEY_WRAP_PAD'), wkey=w, key=h, buf=256), {'CKA_EXTRACTABLE': False}),
            'C_WrapKey(as wrapping key)': (lambda x, s, h, w: dict(fn='C_WrapKey', s=s, mech=x.M('CKM_AES_KEY_WRAP_PAD'), wkey=h, key=w, buf=256), {'CKA_WRAP': False}),
            'C_EncryptInit': (lambda x, s, h, w: dict(fn='C_EncryptInit', s=s, mech=x.M('CKM_AES_ECB'), key=h), {'CKA_ENCRYPT': False}),
            'C_SignInit': (lambda x, s, h, w: dict(fn='C_SignInit', s=s, mech=x.M('CKM_AES_CMAC'), key=h), {'CKA_SIGN': False}),
            'C_DeriveKey': (lambda x, s, h, w: dict(fn='C_DeriveKey', s=s, mech=x.M('CKM_AES_ECB_ENCRYPT_DATA', kdstr=(b'\x01' * 16).hex()), key=h, tmpl=x.T({'CKA_CLASS': ck.CKO_SECRET_KEY, 'CKA_KEY_TYPE': ck.CKK_AES, 'CKA_VALUE_LEN': 16, 'CKA_TOKEN': False})), {'CKA_DERIVE': False}),
            'C_CopyObject': (lambda x, s, h, w: dict(fn='C_CopyObject', s=s, o=h, tmpl=x.T({'CKA_TOKEN': False})), None),
            'C_GetObjectSize': (lambda x, s, h, w: dict(fn='C_GetObjectSize', s=s, o=h), None),
            'C_DigestKey': (None, None),
        }
        n = 0
        for kind, (mk, change) in KINDS.items():
            for how in (['attribute', 'destroy'] if change else ['destroy']):
                n += 1; lab = b'OBS-%d' % n
                r = A.call('C_CreateObject', s=sA, tmpl=A.T({'CKA_CLASS': ck.CKO_SECRET_KEY, 'CKA_KEY_TYPE': ck.CKK_AES, 'CKA_TOKEN': True, 'CKA_PRIVATE': False, 'CKA_LABEL': lab, 'CKA_VALUE': bytes(range(16, 32)),
                                                             'CKA_WRAP': True, 'CKA_ENCRYPT': True, 'CKA_SIGN': True, 'CKA_DERIVE': True, 'CKA_SENSITIVE': False, 'CKA_EXTRACTABLE': True}))
                assert r['rv'] == 0; hA = r['h']
                hs = B.findall(sB, {'CKA_LABEL': lab})[1]; hw = B.findall(sB, {'CKA_LABEL': b'WRAPPER'})[1]
                if len(hs) != 1 or len(hw) != 1: part.violation(f'C_FindObjects|after-other-process-create{be}|found-{len(hs)}', 'an object committed by another process is not found at the next call', {'label': lab.decode()}); continue
                hB, wB = hs[0], hw[0]
                def call_kind():
                    if kind == 'C_DigestKey':
                        if B.call('C_DigestInit', s=sB, mech=B.M('CKM_SHA256'))['rv'] != 0: return None
                        rr = B.call('C_DigestKey', s=sB, key=hB); B.call('C_DigestFinal', s=sB, buf=32); return rr
                    rr = B.call(**mk(B, sB, hB, wB))
                    if rr['rv'] == 0 and kind in ('C_EncryptInit', 'C_SignInit'):
                        B.call('C_Encrypt' if kind == 'C_EncryptInit' else 'C_Sign', s=sB, data=(b'\0' * 16).hex(), buf=64)
                    return rr
                warm = call_kind()
                if warm is None or warm['rv'] != 0: part.observe('observer warm-up call failed', f'{kind}: {warm and warm["rvname"]}'); continue
                if how == 'attribute': assert A.call('C_SetAttributeValue', s=sA, o=hA, tmpl=A.T(change))['rv'] == 0
                else: assert A.call('C_DestroyObject', s=sA, o=hA)['rv'] == 0
                nxt = call_kind()      # B's very next call
                if nxt is not None and nxt['rv'] == 0:
                    part.violation(f'{kind}|next-call-after-other-process-{"set:" + list(change)[0] if how == "attribute" else "destroy"}|stale-view-accepted', 'the next call of a process still acted on its cached copy of an object that another process had changed / destroyed', {'kind': kind, 'how': how, 'rv': nxt['rvname']})
                part.case(('observer', kind, how), sample={'observer': kind, 'change': how, 'next_call_rv': nxt and nxt['rvname']} if n % 5 == 1 else None)
        for x in X: x.call('C_Finalize'); x.close()
        X = []
    except AssertionError as e: part.inconc(f'observer setup failed: {e!r}')
    except Died as ex: part.observe('side:C17 library terminated the host', {'kind': ex.kind(), 'fn': ex.fn}); part.inconc(f'executor died: {ex}')
    except Hang: part.inconc('hang in observer run')
    finally:
        for x in X: x.kill()
        shutil.rmtree(d, ignore_errors=True)
    return part

# ------------------------------------------------------------------ (ii) concurrent writers with FS-level delays
def conc_job(job):
    from ck import CK
    ck = CK(job['hdr']); part = Part(); rnd = random.Random(job['seed']); d = os.path.join(job['scratch'], 'conc-%d' % job['seed']); shutil.rmtree(d, ignore_errors=True); os.makedirs(d)
    X = []
    try:
        prepare(job['paths'], ck, d, job.get('backend', 'file')); nproc = job['nproc']
        X = [start(job['paths'], ck, job['cfg'], d, i) for i in range(nproc)]; S = [attach(x) for x in X]
        shared = [b'SH-%d' % i for i in range(2)]; bigrun = job['seed'] % 2 == 1
        for lab in shared: assert X[0].call('C_CreateObject', s=S[0], tmpl=obj_tmpl(X[0], lab, b'init', False, big=bigrun))['rv'] == 0
        scripts = []; metas = []
        for p, x in enumerate(X):
            Sx = []; M = []
            def add(req, meta): Sx.append(req); M.append(meta); return len(Sx) - 1
            sref = S[p]
            for it in range(job['iters']):
                c = rnd.random()
                if job.get('writes') and c < job['writes']: c = 0.0
                if c < 0.35:      # write a unique value to a shared object
                    lab = rnd.choice(shared); f = add({'fn': 'C_FindObjectsInit', 's': sref, 'tmpl': x.T({'CKA_LABEL': lab})}, None); g = add({'fn': 'C_FindObjects', 's': sref, 'max': 4}, ('find', lab, None)); add({'fn': 'C_FindObjectsFinal', 's': sref}, None)
                    val = b'p%d:%d' % (p, it); add({'fn': 'C_SetAttributeValue', 's': sref, 'o': '$%d.objs.0' % g, 'tmpl': x.T({'CKA_ID': val})}, ('write', lab, val))
                elif c < 0.55:    # read a shared object
                    lab = rnd.choice(shared); f = add({'fn': 'C_FindObjectsInit', 's': sref, 'tmpl': x.T({'CKA_LABEL': lab})}, None); g = add({'fn': 'C_FindObjects', 's': sref, 'max': 4}, ('find', lab, None)); add({'fn': 'C_FindObjectsFinal', 's': sref}, None)
                    add({'fn': 'C_GetAttributeValue', 's': sref, 'o': '$%d.objs.0' % g, 'tmpl': [{'t': ck.CKA_ID, 'buf': 64}, {'t': ck.CKA_VALUE, 'buf': 16000}]}, ('read', lab))
                elif c < 0.85:    # create (and maybe destroy) an own object
                    lab = b'own-p%d-%d' % (p, it); cidx = add({'fn': 'C_CreateObject', 's': sref, 'tmpl': obj_tmpl(x, lab, b'own', rnd.random() < 0.5)}, ('create', lab))
                    if rnd.random() < 0.5: add({'fn': 'C_DestroyObject', 's': sref, 'o': '$%d.h' % cidx}, ('destroy', lab))
                else:             # search everything while others write
                    add({'fn': 'C_FindObjectsInit', 's': sref, 'tmpl': []}, None); add({'fn': 'C_FindObjects', 's': sref, 'max': 200}, ('findall',)); add({'fn': 'C_FindObjectsFinal', 's': sref}, None)
            scripts.append(Sx); metas.append(M)
        for p, x in enumerate(X): x.call('fs', mode='delay', root=os.path.join(d, 'tokens'), seed=job['seed'] * 31 + p, p=job['delay_p'], maxus=job['delay_us'])
        for p, x in enumerate(X): x.send({'fn': 'threads', 'scripts': [scripts[p]], 'timeout': 600})
        results = [x.recv(600)['results'][0] for x in X]
        for x in X: x.call('fs', mode='off')
        # ---- history
        writes = collections.defaultdict(list); reads = []; created = {}; destroyed = set(); fsdelays = 0
        for p in range(nproc):
            for st, m in zip(results[p], metas[p]):
                if m is None: continue
                k = m[0]
                if k == 'write':
                    if st['rv'] == 0: writes[m[1]].append((st['ns_call'], st['ns_ret'], m[2], p))
                    else: part.observe('concurrent C_SetAttributeValue failed (not committed)', ck.rv(st['rv']))
                elif k == 'read' and st['rv'] == 0:
                    reads.append((st['ns_call'], st['ns_ret'], m[1], bytes.fromhex(st['tmpl'][0].get('data', '')), p))
                    if bytes.fromhex(st['tmpl'][1].get('data', '')) != obj_value(m[1], bigrun): part.violation('C_GetAttributeValue|shared-object-during-concurrent-writes|value-corrupt-or-missing', 'a committed object was read with a missing or corrupted CKA_VALUE while another process rewrote it', {'seed': job['seed'], 'label': m[1].decode(), 'len': len(st['tmpl'][1].get('data', '')) // 2})
                elif k == 'read': part.violation(f'C_GetAttributeValue|shared-object-during-concurrent-writes|{ck.rv(st["rv"])}', 'reading a committed object failed while other processes write', {'seed': job['seed']})
                elif k == 'find' and (st['rv'] != 0 or st['n'] != 1): part.violation(f'C_FindObjects|shared-object-during-concurrent-writes|found-{st.get("n")}', 'a committed object is not found exactly once while other processes write', {'seed': job['seed'], 'label': m[1].decode(), 'rv': ck.rv(st['rv'])})
                elif k == 'create':
                    if st['rv'] == 0: created[m[1]] = p
                    else: part.observe('concurrent C_CreateObject failed (not committed)', ck.rv(st['rv']))
                elif k == 'destroy':
                    if st['rv'] == 0: destroyed.add(m[1])
                    elif m[1] in created: part.observe('concurrent C_DestroyObject of an own object failed', ck.rv(st['rv']))
        # reads: the value must have been written by a committed (or concurrent) write that began before the read returned, and no other committed write to the object lies strictly between that write and the read
        for (rc, rr, lab, val, p) in reads:
            ws = writes[lab]
            if val == b'init':
                if any(w[1] < rc for w in ws): part.violation('C_GetAttributeValue|shared-object|stale-initial-value', 'a read returned the initial value although a write by another process had completed before the read began', {'seed': job['seed'], 'label': lab.decode()})
                continue
            src = [w for w in ws if w[2] == val]
            if not src:
                # maybe a failed (uncommitted) write's value: still must be a value some process tried to write
                part.violation('C_GetAttributeValue|shared-object|value-nobody-wrote', 'a read returned a value that no committed write wrote', {'seed': job['seed'], 'label': lab.decode(), 'value': val.decode('latin-1')}); continue
            w = src[0]
            if w[0] > rr: part.violation('C_GetAttributeValue|shared-object|value-from-the-future', 'a read returned the value of a write that had not begun', {'seed': job['seed']})
            if any(o[0] > w[1] and o[1] < rc for o in ws if o is not w): part.violation('C_GetAttributeValue|shared-object|stale-value', 'a read returned a value although another committed write lies strictly between that write and the read', {'seed': job['seed'], 'label': lab.decode(), 'value': val.decode('latin-1')})
        # final state, as seen by every process at its next call and by a fresh process
        fresh = start(job['paths'], ck, job['cfg'], d, 98); X.append(fresh); S.append(attach(fresh)); finals = collections.defaultdict(dict)
        for p, x in enumerate(X):
            rvn, hs = x.findall(S[p], {}); labs = collections.Counter(); vals = {}
            for h in hs:
                rvn2, v = x.getattrs(S[p], h, ['CKA_LABEL', 'CKA_ID', 'CKA_VALUE'], cap=16000); lab = v.get('CKA_LABEL'); labs[lab] += 1; vals[lab] = v
                if lab is None or v.get('CKA_VALUE') != obj_value(lab, bigrun and lab in shared): part.violation('final|object-undecodable-or-corrupt', 'an object is returned without label or with a corrupted value after concurrent writes', {'seed': job['seed'], 'proc': p, 'label': lab, 'rv': rvn2})
            who = 'fresh-process' if x is fresh else 'writer-process'
            for lab, n in labs.items():
                if n > 1: part.violation(f'final|{who}|object-duplicated', 'a committed object is present twice', {'seed': job['seed'], 'label': lab})
                if lab in destroyed: part.violation(f'final|{who}|destroyed-object-present', 'an object whose destruction was committed is still found', {'seed': job['seed'], 'label': lab})
            for lab in created:
                if lab not in destroyed and labs.get(lab, 0) == 0: part.violation(f'final|{who}|committed-object-lost', 'a committed object is missing', {'seed': job['seed'], 'label': lab.decode(), 'proc': p})
            for lab in shared:
                if labs.get(lab, 0) != 1: part.violation(f'final|{who}|shared-object-count-{labs.get(lab, 0)}', 'a shared object is missing or duplicated', {'seed': job['seed']}); continue
                ws = writes[lab]; fin = vals[lab].get('CKA_ID'); finals[lab][p] = fin
                maximal = [w[2] for w in ws if not any(o[0] > w[1] for o in ws if o is not w)] or [b'init']
                if fin not in maximal: part.violation(f'final|{who}|shared-object-final-value-not-a-last-write', 'the final value is not the value of a committed write that no other committed write strictly follows', {'seed': job['seed'], 'final': fin, 'candidates': maximal})
        # nothing is written any more: every process (each at its next call) and the fresh process must read ONE value per object
        for lab, byp in finals.items():
            if len(set(byp.values())) > 1: part.violation('final|processes-disagree-on-the-value-of-a-shared-object', 'after all writers have finished, two processes read different values of the same committed object (one of them keeps serving an overwritten value)', {'seed': job['seed'], 'label': lab.decode(), 'values_by_process': {str(k): (v or b'').decode('latin-1') for k, v in byp.items()}, 'fresh_process_is': str(len(X) - 1)})
        nw = sum(len(v) for v in writes.values())
        overlap = sum(1 for lab in shared for a in writes[lab] for b in writes[lab] if a[3] != b[3] and a[0] < b[1] and b[0] < a[1]) // 2
        part.case(('conc', nproc, min(overlap, 5), len(created) > 0, len(destroyed) > 0), nontrivial=nw > 0, sample={'processes': nproc, 'committed_writes': nw, 'overlapping_write_pairs': overlap, 'reads': len(reads), 'created': len(created), 'destroyed': len(destroyed)} if job['seed'] % 4 == 0 else None)
        part.count('conc_runs', 1); part.count('conc_committed_writes', nw); part.count('conc_overlapping_write_pairs', overlap); part.count('conc_reads', len(reads))
        for x in X: x.call('C_Finalize'); x.close()
        X = []
    except AssertionError as e: part.inconc(f'setup failed: {e!r}')
    except Died as ex: part.observe('side:C17 library terminated the host', {'kind': ex.kind(), 'fn': ex.fn}); part.inconc(f'executor died: {ex}')
    except Hang: part.inconc('hang in concurrent run')
    finally:
        for x in X: x.kill()
        shutil.rmtree(d, ignore_errors=True)
    return part

# ------------------------------------------------------------------ (iii) duels: simultaneous commits, then nothing else changes
def duel_job(job):
    """Each round both (all) processes start a C_CreateObject of their own object at the same moment (with PRNG delays before record locks and
    at FS operations), then only search.  Nothing else changes the token afterwards, so a lost change notification is not healed by later
    traffic: every search that BEGINS after another process's create has RETURNED must find that object."""
    from ck import CK
    ck = CK(job['hdr']); part = Part(); d = os.path.join(job['scratch'], 'duel-%d' % job['seed']); shutil.rmtree(d, ignore_errors=True); os.makedirs(d)
    X = []
    try:
        prepare(job['paths'], ck, d); nproc = job['nproc']
        X = [start(job['paths'], ck, job['cfg'], d, i) for i in range(nproc)]; S = [attach(x) for x in X]
        for p, x in enumerate(X): x.call('fs', mode='delay', root=os.path.join(d, 'tokens'), seed=job['seed'] * 131 + p, p=job['delay_p'], maxus=job['delay_us'])
        for rnd_no in range(job['rounds']):
            labs = [b'duel-%d-p%d' % (rnd_no, p) for p in range(nproc)]; scripts = []
            for p, x in enumerate(X):
                Sx = [{'fn': 'C_CreateObject', 's': S[p], 'tmpl': obj_tmpl(x, labs[p], b'own', False)}]
                for rep in range(3):
                    for q in range(nproc):
                        if q != p: Sx += [{'fn': 'C_FindObjectsInit', 's': S[p], 'tmpl': x.T({'CKA_LABEL': labs[q]})}, {'fn': 'C_FindObjects', 's': S[p], 'max': 4}, {'fn': 'C_FindObjectsFinal', 's': S[p]}]
                scripts.append(Sx)
            for p, x in enumerate(X): x.send({'fn': 'threads', 'scripts': [scripts[p]], 'timeout': 300})
            res = [x.recv(300)['results'][0] for x in X]
            created = {p: (res[p][0]['ns_call'], res[p][0]['ns_ret']) for p in range(nproc) if res[p][0]['rv'] == 0}
            for p in range(nproc):
                i = 1
                for rep in range(3):
                    for q in range(nproc):
                        if q == p: continue
                        init, fo = res[p][i], res[p][i + 1]; i += 3
                        if q not in created or init['rv'] != 0 or fo['rv'] != 0: continue
                        if init['ns_call'] > created[q][1] and fo['n'] != 1:
                            part.violation(f'C_FindObjects|after-simultaneous-commits|found-{fo["n"]}', 'a search that began after another process\'s C_CreateObject had returned does not find the object (a change notification was lost when two processes committed at the same time)', {'seed': job['seed'], 'round': rnd_no, 'searcher': p, 'creator': q})
                        if fo['n'] > 1: part.violation('C_FindObjects|after-simultaneous-commits|duplicated', 'an object is found twice', {'seed': job['seed'], 'round': rnd_no})
            ov = sum(1 for a in created.values() for b in created.values() if a is not b and a[0] < b[1] and b[0] < a[1]) // 2
            part.case(('duel', nproc, min(ov, 3)), nontrivial=len(created) >= 2); part.count('duel_rounds', 1); part.count('duel_overlapping_creates', ov)
        for x in X: x.call('fs', mode='off'); x.call('C_Finalize'); x.close()
        X = []
    except AssertionError as e: part.inconc(f'setup failed: {e!r}')
    except Died as ex: part.observe('side:C17 library terminated the host', {'kind': ex.kind(), 'fn': ex.fn}); part.inconc(f'executor died: {ex}')
    except Hang: part.inconc('hang in duel run')
    finally:
        for x in X: x.kill()
        shutil.rmtree(d, ignore_errors=True)
    return part

# ------------------------------------------------------------------ (iv) the other process DIES inside its call: what the surviving process sees is what a fresh process sees
def survivor_job(job):
    """process A is killed at the k-th file-system operation of a C_CreateObject / C_SetAttributeValue / C_DestroyObject (every k, before and after the operation); process B, attached
    since before and holding handles, then searches and reads twice; a fresh process C does the same.  Whatever state the dead process left behind -- B's view at its second look must be
    C's view (an object C cannot see any more must not be served from B's cache, an object C sees must be visible to B)"""
    from ck import CK
    ck = CK(job['hdr']); part = Part(); call = job['call']; d = os.path.join(job['scratch'], 'surv-%s-%d' % (call, job['chunk'])); gold = d + '-gold'
    for q in (d, gold): shutil.rmtree(q, ignore_errors=True)
    os.makedirs(gold); X = []
    def view(x, s):
        out = []
        for h in x.findall(s, {})[1]:
            rvn, v = x.getattrs(s, h, ['CKA_LABEL', 'CKA_ID', 'CKA_VALUE'], cap=4096); out.append((rvn, (v.get('CKA_LABEL') or b'').hex(), (v.get('CKA_ID') or b'').hex(), (v.get('CKA_VALUE') or b'').hex()))
        return sorted(out)
    def victim(x, s, h):
        if call == 'create': return x.call('C_CreateObject', s=s, tmpl=obj_tmpl(x, b'NEW', b'new', False))
        if call == 'set': return x.call('C_SetAttributeValue', s=s, o=h, tmpl=x.T({'CKA_ID': b'changed-by-the-victim'}))
        return x.call('C_DestroyObject', s=s, o=h)
    try:
        prepare(job['paths'], ck, gold); x = start(job['paths'], ck, 'plain', gold, 0); s = attach(x)
        for lab in (b'KEEP', b'TARGET'): assert x.call('C_CreateObject', s=s, tmpl=obj_tmpl(x, lab, b'init', False))['rv'] == 0
        x.call('C_Finalize'); x.close()
        def fresh(): shutil.rmtree(d, ignore_errors=True); shutil.copytree(gold, d); mkconf(d, 'file')
        fresh(); A = start(job['paths'], ck, 'plain', d, 1); X = [A]; sa = attach(A); ha = A.findall(sa, {'CKA_LABEL': b'TARGET'})[1][0]
        A.call('fs', mode='count', root=d + '/tokens'); victim(A, sa, ha); N = A.call('fs', mode='status')['nops']; A.call('fs', mode='off'); A.close(); X = []
        if job['chunk'] == 0: part.observe('fs operations of the victim call', {'call': call, 'n': N})
        points = [(k, when) for k in range(1, N + 1) for when in ('before', 'after')]
        for (k, when) in points[job['chunk']::job['nchunks']]:
            fresh(); B = start(job['paths'], ck, job['cfg'], d, 2); X = [B]; sb = attach(B); v0 = view(B, sb)
            A = start(job['paths'], ck, 'plain', d, 1); X.append(A); sa = attach(A); ha = A.findall(sa, {'CKA_LABEL': b'TARGET'})[1][0]
            A.call('fs', mode='crash', root=d + '/tokens', k=k, when=when)
            try: victim(A, sa, ha); A.call('fs', mode='off'); died = False; A.close()
            except Died: died = True
            X = [B]
            v1 = view(B, sb); v2 = view(B, sb)
            C = start(job['paths'], ck, job['cfg'], d, 3); X.append(C); sc = attach(C); vc = view(C, sc); C.call('C_Finalize'); C.close(); X = [B]
            part.case(('survivor', call, k, when), nontrivial=died, sample={'survivor': [call, k, when, len(v2), len(vc)]} if k == 1 and when == 'before' else None); part.count('survivor_cases'); part.count('victims_died', 1 if died else 0)
            good = lambda v: [e for e in v if e[0] == 'CKR_OK' and e[1]]      # complete objects only: what a dying call left half-written is C16's subject, not a committed object
            only_b = [e for e in good(v2) if e not in good(vc)]; only_c = [e for e in good(vc) if e not in good(v2)]
            if only_b or only_c:
                kind = 'serves-what-a-fresh-process-no-longer-finds' if only_b and not only_c else 'misses-what-a-fresh-process-finds' if only_c and not only_b else 'differs'
                wit = {'call': call, 'k': k, 'when': when, 'survivor_only': [(e[0], bytes.fromhex(e[1]).decode('latin-1')) for e in only_b][:4], 'fresh_only': [(e[0], bytes.fromhex(e[1]).decode('latin-1')) for e in only_c][:4]}
                if call == 'destroy' and only_b and not only_c:
                    # the dead process had removed the object from the token (its file is gone, no process can ever open it again): an object that no longer exists is still returned here
                    part.violation(f'survivor-of-a-dead-process|destroy|{kind}', 'another process died inside C_DestroyObject after it had removed the object; at its second look the surviving process still returns the object, which a fresh process no longer finds', wit)
                else: part.observe('survivor and fresh process disagree after another process died inside a create / set (an interrupted call committed nothing: recorded, not judged)', dict(wit, kind=kind), cap=6); part.count('survivor_disagreements_not_judged')
            B.call('C_Finalize'); B.close(); X = []
    except AssertionError as e: part.inconc(f'survivor lane set-up failed ({call}): {e!r}')
    except Died as ex: part.observe('side:C17 library terminated the host', {'kind': ex.kind(), 'fn': ex.fn}); part.inconc(f'executor died in the survivor lane: {ex}')
    except Hang: part.inconc('hang in the survivor lane')
    finally:
        for x in X: x.kill()
        for q in (d, gold): shutil.rmtree(q, ignore_errors=True)
    return part

def dispatch(j): return survivor_job(j) if j['kind'] == 'survivor' else serial_job(j) if j['kind'] == 'serial' else duel_job(j) if j['kind'] == 'duel' else observer_job(j) if j['kind'] == 'observer' else conc_job(j)
def run(ctx):
    ctx.need('plain', 'asan'); common = dict(paths=ctx.paths, hdr=ctx.paths['asan']['hdr'], scratch=ctx.scratch); jobs = []
    for i in range(ctx.q(32, 64)): jobs.append(dict(common, kind='serial', cfg='asan' if i % 4 == 0 else 'plain', seed=ctx.seed * 1000 + i, nproc=2 + (i % 2), cases=ctx.q(40, 200), perms=None))
    # the same serialised interleavings on the SQLite back-end (the statement is about processes sharing a token, whatever stores it)
    for i in range(ctx.q(8, 24)): jobs.append(dict(common, kind='serial', backend='db', cfg='asan' if i % 4 == 0 else 'plain', seed=ctx.seed * 1000 + 900 + i, nproc=2 + (i % 2), cases=ctx.q(40, 200), perms=None))
    for i in range(ctx.q(96, 240)): jobs.append(dict(common, kind='conc', cfg='asan' if i % 4 == 0 else 'plain', seed=ctx.seed * 1000 + 500 + i, nproc=2 + (i % 2), iters=ctx.q(30, 50), delay_p=0.3, delay_us=rnd_us(i)))
    # rare but long stalls (one process parked at ONE file-system operation while another completes whole calls): windows between "looked" and "locked" that uniform short delays never open
    for i in range(ctx.q(48, 160)): jobs.append(dict(common, kind='conc', cfg='plain', seed=ctx.seed * 1000 + 1500 + i, nproc=2 + (i % 2), iters=ctx.q(30, 50), delay_p=[0.03, 0.06][i % 2], delay_us=[40000, 15000][i % 2], writes=0.6))
    for i in range(ctx.q(2, 8)): jobs.append(dict(common, kind='observer', cfg='asan' if i % 2 else 'plain', seed=ctx.seed * 1000 + 700 + i))
    for i in range(ctx.q(16, 48)): jobs.append(dict(common, kind='duel', cfg='plain', seed=ctx.seed * 1000 + 800 + i, nproc=2 + (i % 2), rounds=ctx.q(30, 60), delay_p=[0.3, 0.6][i % 2], delay_us=[50, 200, 800][i % 3]))
    for call in ('create', 'set', 'destroy'):
        for c in range(4): jobs.append(dict(common, kind='survivor', cfg='plain', call=call, chunk=c, nchunks=4))
    for part in pmap(dispatch, jobs, max(2, ctx.nproc // 3)): ctx.merge(part)
    # the next call of a process whose reload of the changed object FAILS on a file-system error may fail, but must not answer from the stale copy, and the call after it observes the committed state
    import twoproc
    ctx.extra['two_process_fault_cells'] = {a: twoproc.stale_view_under_faults(ctx, 'file', a) for a in ('modify', 'destroy')}
    ctx.rule = ('(i) one evaluation = one serialised interleaving of 2-3 processes x 1-3 calls (create/set/destroy/find/get on shared labels), distinct = (operation/existence shape, process order); '
                '(ii) one evaluation = one concurrent run of 2-3 processes (30-50 script steps each) with PRNG delays at FS operations, checked by a history checker (unique written values, per-object register rule, conservation of objects); '
                'non-trivial when at least one write committed; (iii) duels: rounds in which all processes start a C_CreateObject simultaneously (PRNG delays before record locks and at FS operations) and then only search: a search that begins after another create returned must find the object')
    ctx.assumptions += ['concurrent runs, duels and observers: file back-end (the anchors); serialised interleavings: file and db back-ends', 'FS-level interleavings are made likely by delays, not enumerated', 'a call that fails under contention is not a committed write; it is counted as an observation']
def rnd_us(i): return [50, 200, 1000, 3000][i % 4]
if __name__ == '__main__': main('C15', run, min_evaluations=100, min_distinct=30)
