#!/usr/bin/env python3
"""Build libsofthsm2.so (+ softhsm2-util) and the p11x executor for one or more configs from the
CURRENT working tree of /repo.  Sources are mirrored by content (rsync -rc) into a cache outside
/repo and /verif, then built with the repository's own CMake + ninja.  Concurrent callers share
one build through flock.  Usage: build.py <config> [...]   prints one JSON line per config."""
import fcntl, hashlib, json, os, subprocess, sys, time

REPO = os.environ.get('VERIF_REPO', '/repo')
VERIF = os.path.dirname(os.path.dirname(os.path.abspath(__file__)))
CACHE = os.environ.get('VERIF_CACHE', '/var/tmp/softhsmv2-verif')
GUARD = 'SOFTHSMV2_VERIF'

CONFIGS = {
    #          cxx flags                                                    crypto     exe flags
    'asan':  ('-O1 -g -fno-omit-frame-pointer -fsanitize=address,undefined', 'openssl'),
    'tsan':  ('-O1 -g -fno-omit-frame-pointer -fsanitize=thread', 'openssl'),
    'botan': ('-O1 -g -fno-omit-frame-pointer -fsanitize=address,undefined', 'botan'),
    'plain': ('-O1 -g', 'openssl'),
}

def sh(cmd, **kw):
    return subprocess.run(cmd, stdout=subprocess.PIPE, stderr=subprocess.STDOUT, text=True, **kw)

def paths(cfg):
    b = f'{CACHE}/build-{cfg}'
    return {'config': cfg, 'lib': f'{b}/src/lib/libsofthsm2.so', 'util': f'{b}/src/bin/util/softhsm2-util',
            'exe': f'{CACHE}/p11x-{cfg}', 'builddir': b, 'src': f'{CACHE}/src',
            'hdr': f'{CACHE}/src/src/lib/pkcs11/pkcs11.h'}

def mirror():
    os.makedirs(f'{CACHE}/src', exist_ok=True)
    items = [x for x in ['src', 'cmake', 'CMakeLists.txt', 'config.h.in.cmake', 'softhsm2.module.in', 'LICENSE', 'README.md', 'NEWS'] if os.path.exists(f'{REPO}/{x}')]
    r = sh(['rsync', '-rc', '--delete', '--exclude', '*.orig', '--exclude', '*.rej'] + [f'{REPO}/{x}' for x in items] + [f'{CACHE}/src/'])
    if r.returncode != 0: raise SystemExit('rsync failed: ' + r.stdout)

def build_lib(cfg):
    flags, crypto = CONFIGS[cfg]; p = paths(cfg); b = p['builddir']
    env = dict(os.environ, ASAN_OPTIONS='detect_leaks=0', TSAN_OPTIONS='report_bugs=0', UBSAN_OPTIONS='halt_on_error=0')
    if not os.path.exists(f'{b}/build.ninja'):
        cmd = ['cmake', '-G', 'Ninja', '-S', p['src'], '-B', b, '-DCMAKE_BUILD_TYPE=None', '-DBUILD_TESTS=OFF',
               '-DWITH_OBJECTSTORE_BACKEND_DB=ON', '-DENABLE_P11_KIT=OFF', f'-DWITH_CRYPTO_BACKEND={crypto}',
               f'-DCMAKE_CXX_FLAGS={flags} -D{GUARD}', f'-DCMAKE_C_FLAGS={flags} -D{GUARD}',
               f'-DCMAKE_CXX_COMPILER_LAUNCHER={VERIF}/tools/cxxwrap.py', '-DCMAKE_INSTALL_PREFIX=/nonexistent-verif']
        r = sh(cmd, env=env)
        if r.returncode != 0: raise SystemExit(f'cmake configure failed for {cfg}:\n' + r.stdout[-6000:])
    r = sh(['cmake', '--build', b, '--target', 'softhsm2', 'softhsm2-util', '--', '-j16'], env=env)
    if r.returncode != 0:
        # target names differ between cmake versions of the tree; fall back to everything
        r = sh(['cmake', '--build', b, '--', '-j16'], env=env)
        if r.returncode != 0: raise SystemExit(f'build failed for {cfg}:\n' + r.stdout[-8000:])
    if not os.path.exists(p['lib']): raise SystemExit(f'no library produced for {cfg}')

def build_exe(cfg):
    flags, _ = CONFIGS[cfg]; p = paths(cfg)
    srcs = [f'{VERIF}/exec/p11x.cpp', f'{VERIF}/exec/interpose.cpp', f'{VERIF}/exec/interpose.h']
    h = hashlib.sha256()
    for s in srcs + [p['hdr']]: h.update(open(s, 'rb').read())
    h.update(flags.encode()); stamp = p['exe'] + '.stamp'
    if os.path.exists(p['exe']) and os.path.exists(stamp) and open(stamp).read() == h.hexdigest(): return
    inc = ['-I', f"{p['src']}/src/lib/pkcs11", '-I', f'{VERIF}/exec']
    o1 = f'{CACHE}/p11x-{cfg}.o'; o2 = f'{CACHE}/interpose-{cfg}.o'
    r = sh(['g++', '-std=gnu++17'] + flags.split() + ['-c', srcs[0], '-o', o1] + inc)
    if r.returncode != 0: raise SystemExit('p11x compile failed:\n' + r.stdout[-6000:])
    # the interposer must not be instrumented: sanitizer runtimes call mkdir/open through the PLT before main
    r = sh(['g++', '-std=gnu++17', '-O1', '-g', '-fno-sanitize=all', '-fno-threadsafe-statics', '-c', srcs[1], '-o', o2] + inc)
    if r.returncode != 0: raise SystemExit('interpose compile failed:\n' + r.stdout[-6000:])
    r = sh(['g++'] + flags.split() + ['-rdynamic', o1, o2, '-o', p['exe'], '-ldl', '-lpthread'])
    if r.returncode != 0: raise SystemExit('p11x link failed:\n' + r.stdout[-6000:])
    open(stamp, 'w').write(h.hexdigest())

def ensure(cfgs):
    os.makedirs(CACHE, exist_ok=True); out = []
    with open(f'{CACHE}/.lock', 'w') as lk:
        fcntl.flock(lk, fcntl.LOCK_EX)
        mirror()
        for c in cfgs:
            t = time.time(); build_lib(c); build_exe(c); d = paths(c); d['build_s'] = round(time.time() - t, 1); out.append(d)
    return out

if __name__ == '__main__':
    cfgs = sys.argv[1:] or list(CONFIGS)
    for c in cfgs:
        if c not in CONFIGS: raise SystemExit(f'unknown config {c}')
    for d in ensure(cfgs): print(json.dumps(d))
