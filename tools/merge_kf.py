#!/usr/bin/env python3
"""known_findings.json = register of fixed findings (known_findings.fixed.json) + every entry of known_findings.d/*.json.
The checks read ONLY known_findings.json; the fragments are the per-property sources it is assembled from.  Never run by a check."""
import json, glob, os
V = os.path.dirname(os.path.dirname(os.path.abspath(__file__)))
fixed = json.load(open(f'{V}/known_findings.fixed.json'))['findings']
out = list(fixed); seen = {(e['property'], e['key']) for e in out}
for f in sorted(glob.glob(f'{V}/known_findings.d/*.json')):
    for e in json.load(open(f))['findings']:
        if (e['property'], e['key']) not in seen: out.append(e); seen.add((e['property'], e['key']))
json.dump({'note': 'assembled by tools/merge_kf.py from known_findings.fixed.json (repaired defects: status fixed, suppress nothing) and known_findings.d/<property>.json (open known findings and findings fixed later, keyed by the check\'s canonicaliser); checks read only this file and never write it',
           'findings': out}, open(f'{V}/known_findings.json', 'w'), indent=0)
print('known_findings.json:', len(out), 'entries,', sum(1 for e in out if e.get('status', 'open') == 'open'), 'open')
