#!/usr/bin/env python3
"""Write the prompt for an independent seeding sub-agent (it gets the property text and a scratch worktree, nothing
from /verif).  usage: mkmutprompt.py <Cnn> <suffix>   -> prints the prompt; worktree is /tmp/mut-<Cnn><suffix>"""
import json, os, sys
V = os.path.dirname(os.path.dirname(os.path.abspath(__file__)))
def main():
    pid, suf = sys.argv[1], sys.argv[2]
    p = [json.loads(l) for l in open(f'{V}/properties.jsonl') if json.loads(l)['id'] == pid][0]
    wt = f'/tmp/mut-{pid}{suf}'; tag = f'mut{pid}{suf}'
    used = sorted(d for d in os.listdir(f'{V}/seeded') if os.path.isdir(f'{V}/seeded/{d}'))
    files = ', '.join(p['anchors']['files'][:10])
    print(f"""You are a software engineer helping to evaluate a test/verification effort for SoftHSMv2 (a software PKCS#11 token, C++). Your job: produce TWO different realistic code changes ("seeded defects") to SoftHSMv2 that each BREAK the semantic property stated below while the code still compiles and the repository's existing test suite still passes — and for each one a small demonstration that fails with the change and passes without it.

PROPERTY {pid} — {p['title']}
Statement: {p['statement']}
Quantified over: {p['quantifier']}

WORKSPACE: your own git worktree of the repository at {wt} (already created, at the current HEAD). Work ONLY there (plus temporary files under {wt}/tmpwork or /tmp/{tag}-*). Do NOT read or touch /verif, /repo, /root/proto, /root/work or any other worktree; do not use the network (there is none).

HOW TO BUILD AND RUN THE EXISTING SUITE: `python3 /root/work/mut/suite.py {wt}` configures (cmake+ninja, first time ~2-4 min), builds {wt}/_build and runs the 195-case cppunit suite; it prints `BASELINE: 195/195 baseline cases pass ...` when everything the baseline expects still passes (a handful of single-DES cases fail in this environment even on the unchanged code: ignore those, only the 195/195 line counts). The built library is {wt}/_build/src/lib/libsofthsm2.so (file object store; OpenSSL crypto). If your change is in the SQLite back-end, the Botan back-end or another optional part, configure a second build dir yourself with the needed cmake option (e.g. -DWITH_OBJECTSTORE_BACKEND_DB=ON -DBUILD_TESTS=OFF; Botan: -DWITH_CRYPTO_BACKEND=botan needs -DCMAKE_CXX_COMPILER_LAUNCHER=<a script that drops arguments starting with /wd and execs the rest>, because src/lib/crypto/CMakeLists.txt adds MSVC flags unconditionally) for the demonstration, but the suite run above must still pass. Other machines' agents share this box: use `ninja -j4` / `cmake --build <dir> -j4` for extra builds.

WHAT KIND OF CHANGE: something a real developer could plausibly introduce (a dropped or misplaced check, a wrong condition, an off-by-one, a missing lock / unlock / flush / purge, a reordered pair of operations, a cache not invalidated, a wrong default, an ignored return value, two cooperating sites that each look fine alone). It must NOT be exposed by ordinary use at once: it should need something specific to manifest — a particular interleaving of threads or processes, a crash or an I/O fault at a particular point, a multi-step sequence of operations, an unusual but legal input, a particular configuration. The two changes must be in different functions / mechanisms (not two variants of the same edit) and should need different KINDS of trigger. Keep each patch small (a few lines). Do not edit tests.

FOR EACH of the two changes, deliver a directory {wt}/MUTATION/1 and {wt}/MUTATION/2 containing:
  - patch.diff  : `git diff` of the source change only (relative to HEAD), applicable with `git apply` at the repository root;
  - a demonstration: a small C/C++ program (dlopen the built libsofthsm2.so and call C_GetFunctionList; headers in {wt}/src/lib/pkcs11) or a shell script using it, plus `demo.sh <path-to-libsofthsm2.so>` that sets up its own fresh token directory and SOFTHSM2_CONF under /tmp/{tag}-demo-*, runs the demonstration and exits 0 when the property HOLDS and non-zero (with a clear message) when it is BROKEN. For schedule-dependent defects the demo may loop / retry up to a bound; say how often it fires. Faults may be injected with an LD_PRELOAD shim or `strace -e inject=...` (strace 6.1 is installed).
  - notes.md : which part of the property is broken, what exactly is needed for it to manifest, what you ran.
You must confirm yourself, for each change: (a) with the patch applied the project builds and `suite.py` still prints 195/195; (b) demo.sh exits non-zero against the patched library; (c) demo.sh exits 0 against the unpatched library (build the unpatched library first, copy it aside, e.g. to {wt}/tmpwork/lib-clean.so, so you can test both; if the demonstration needs a second build configuration keep BOTH the patched and the unpatched library of that configuration in {wt}/tmpwork, named lib-patched-<n>.so and lib-clean.so, and say so in notes.md). Leave the worktree's source files UNPATCHED at the end (git checkout -- src), with only the MUTATION directory (and tmpwork) added.

Useful reading: {files}.

Final report: for each change, one paragraph (what, where, why the suite misses it, what the demo does, observed exit codes for patched/unpatched).

IDEAS ALREADY USED by earlier rounds (short names; the prefix is the property they were aimed at) — do NOT repeat them or close variants; find different mechanisms, files and triggers:
""" + '\n'.join('  - ' + u for u in used) + """

Prefer triggers and places earlier rounds used rarely or not at all, for example: TWO COOPERATING SITES that each look fine alone (a value computed in one function and trusted in another; a default changed in one place; an invariant kept by callers that a new caller does not keep); long histories (counters, tables that grow, the hundredth object or session, handle numbers above 2^31 / 2^32, many C_Finalize / C_Initialize cycles); rarely used entry points (C_DigestKey, C_GetObjectSize, C_SeedRandom / C_GenerateRandom, C_GetOperationState, C_WaitForSlotEvent, C_GetMechanismInfo, C_InitPIN, C_CloseAllSessions) and rarely used object classes, key types and mechanisms (certificates, CKO_DATA, domain parameters, DES2, generic secrets of odd lengths, EdDSA, X25519/X448, DSA/DH parameter generation, CMAC, AES-CTR/GCM parameter corners, RSA-PSS / OAEP parameter corners); the command-line tools (softhsm2-util --import / --delete-token / --show-slots, softhsm2-keyconv, softhsm2-dump-file, softhsm2-dump-db) where they matter for the property; the Botan crypto back-end and the SQLite object store; memory-allocation failure or a failing RNG; one specific interleaving of two threads or two processes; a crash or a failing file-system operation at one specific point.""")
if __name__ == '__main__': main()
