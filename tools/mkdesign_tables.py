#!/usr/bin/env python3
"""Regenerate the generated tables of DESIGN.md (between marker comments): seeded changes and open known findings."""
import json, glob, os, re, collections
V = os.path.dirname(os.path.dirname(os.path.abspath(__file__)))
def seeded():
    rows = ['| id | property | what the change does (needs to manifest) | first run | now caught by |', '|----|----------|-------------------------------------------|-----------|---------------|']
    for f in sorted(glob.glob(f'{V}/seeded/*/meta.json')):
        m = json.load(open(f)); notes = m.get('needs_to_manifest', '')
        first = [l.strip('# ').strip() for l in notes.splitlines() if l.strip() and not l.startswith('```')][:1]
        er = m.get('earlier_runs') or []
        firstrun = 'caught (' + ', '.join(er[0].get('caught_by') or []) + ')' if er and er[0].get('caught_by') else ('**missed**' if (er or not m.get('caught_by')) else 'caught')
        if m.get('note') and 'first needed' in m['note']: firstrun = '**missed** (needed additions)'
        rows.append(f"| {m['id']} | {m['property']} | {(first[0] if first else '')[:150]} | {firstrun} | {', '.join(m.get('caught_by') or []) or '**none**'} |")
    return '\n'.join(rows)
def kf():
    cnt = collections.Counter(); ex = {}
    for f in sorted(glob.glob(f'{V}/known_findings.d/*.json')):
        for e in json.load(open(f))['findings']:
            if e.get('status', 'open') == 'open': cnt[e['property']] += 1; ex.setdefault(e['property'], e)
    rows = ['| property | open entries | example key | what |', '|----------|--------------|-------------|------|']
    for p in sorted(cnt): rows.append(f"| {p} | {cnt[p]} | `{ex[p]['key'][:110]}` | {ex[p]['what'][:160]} |")
    return '\n'.join(rows)
t = open(f'{V}/DESIGN.md').read()
for name, fn in (('SEEDED-TABLE', seeded), ('KF-TABLE', kf)):
    b, e = f'<!-- {name}-BEGIN -->', f'<!-- {name}-END -->'
    if b in t: t = t[:t.index(b) + len(b)] + '\n' + fn() + '\n' + t[t.index(e):]
open(f'{V}/DESIGN.md', 'w').write(t); print('tables regenerated')
