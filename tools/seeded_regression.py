#!/usr/bin/env python3
"""Regression over the adopted seeded changes: every seeded/<id>/patch.diff is applied to a scratch copy and the checks that are
recorded as catching it (meta.json caught_by; first one by default, all with --all) must still exit 1.  Runs N lanes in parallel.
usage: seeded_regression.py [--lanes 4] [--all] [id-prefix ...]     writes seeded/REGRESSION.json"""
import sys, os, json, glob, subprocess, time, concurrent.futures
V = os.path.dirname(os.path.dirname(os.path.abspath(__file__)))
args = [a for a in sys.argv[1:] if not a.startswith('--')]; lanes = 4
if '--lanes' in sys.argv: lanes = int(sys.argv[sys.argv.index('--lanes') + 1]); args.remove(str(lanes))
def one(meta):
    checks = meta['caught_by'] if '--all' in sys.argv else meta['caught_by'][:1]
    r = subprocess.run([f'{V}/tools/seedtest.py', f"{V}/seeded/{meta['id']}/patch.diff", 'rg-' + meta['id'][:14]] + checks, stdout=subprocess.PIPE, stderr=subprocess.STDOUT, text=True)
    try: res = json.loads([l for l in r.stdout.splitlines() if l.startswith('{"patch"')][-1])['results']
    except Exception: return meta['id'], {'error': r.stdout[-400:]}
    return meta['id'], {c: v['exit'] for c, v in res.items()}
metas = [json.load(open(f)) for f in sorted(glob.glob(f'{V}/seeded/*/meta.json'))]
metas = [m for m in metas if m.get('caught_by') and (not args or any(m['id'].startswith(a) for a in args))]
out = {}; t0 = time.time()
with concurrent.futures.ThreadPoolExecutor(lanes) as ex:
    for sid, res in ex.map(one, metas):
        ok = 'error' not in res and all(v == 1 for v in res.values()); out[sid] = {'result': res, 'still_caught': ok}; print(('OK   ' if ok else 'LOST ') + sid, res, flush=True)
json.dump({'date': time.strftime('%Y-%m-%d %H:%M UTC', time.gmtime()), 'wall_s': round(time.time() - t0), 'seeds': out}, open(f'{V}/seeded/REGRESSION.json', 'w'), indent=1)
print('lost:', [k for k, v in out.items() if not v['still_caught']])
