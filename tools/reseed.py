#!/usr/bin/env python3
"""Re-run checks against an adopted seeded change (seeded/<id>/patch.diff) and update its meta.json;
the earlier result is kept under meta['earlier_runs'] so that 'missed first, caught after strengthening' stays visible.
usage: reseed.py <seed-id> <Cnn> [<Cnn>...] [--tier quick|thorough]"""
import sys, os, subprocess, json, time
V = os.path.dirname(os.path.dirname(os.path.abspath(__file__)))
args = [a for a in sys.argv[1:] if not a.startswith('--')]; tier = 'quick'
if '--tier' in sys.argv: tier = sys.argv[sys.argv.index('--tier') + 1]; args.remove(tier)
sid, checks = args[0], args[1:]; d = f'{V}/seeded/{sid}'; meta = json.load(open(f'{d}/meta.json'))
r = subprocess.run([f'{V}/tools/seedtest.py', f'{d}/patch.diff', 're%d-' % os.getpid() + sid[:12]] + checks + ['--tier', tier], stdout=subprocess.PIPE, stderr=subprocess.STDOUT, text=True)
res = json.loads([l for l in r.stdout.splitlines() if l.startswith('{"patch"')][-1])['results']
meta.setdefault('earlier_runs', []).append({'date': meta.get('date'), 'tier': meta.get('tier'), 'checks_run': meta.get('checks_run'), 'caught_by': meta.get('caught_by')})
cr = dict(meta.get('checks_run') or {})
for c, v in res.items(): cr[c] = {'exit': v.get('exit'), 'n_violations': v.get('n_violations'), 'violation_keys': v.get('violation_keys', [])[:6], 'wall_s': v.get('wall_s')}
meta['checks_run'] = cr; meta['caught_by'] = [c for c, v in cr.items() if v.get('exit') == 1]; meta['tier'] = tier; meta['date'] = time.strftime('%Y-%m-%d %H:%M UTC', time.gmtime())
json.dump(meta, open(f'{d}/meta.json', 'w'), indent=1); print(sid, 'caught_by', meta['caught_by'])
