#!/usr/bin/env python3
"""Generate MANIFEST.json from the table below.  A property is listed under `checks` when its
driver checks/<id>.py exists AND it appears in READY; otherwise under not_applicable with the reason."""
import json, os, subprocess
V = os.path.dirname(os.path.dirname(os.path.abspath(__file__)))
FE = 'fault_enumeration'; EX = 'exploration'; MC = 'model_checking'; TV = 'translation_validation'
# id: (engine, level category, technique, level text, level note, design ref)
T = {
 'C01': ('walker+tables', EX, 'lock-step reference-model monitor over an enumerated access matrix and random histories, under ASan/UBSan',
         'every (session state x object kind x class x entry-point role) cell is executed against the real library with a positive control, plus model-guided random histories with stale handles; violations are observed effects (handle, bytes, state change), not return codes',
         'P11Model access rules written from the property text; cells whose positive control fails are not counted', '3/C01'),
 'C02': ('tables', EX, 'runtime monitor: canary output buffers + leak scan of every output byte over enumerated key/flag/attribute/buffer cells and attack sequences',
         'all key classes x origins x protection flags x secret attributes x buffer sizes are executed; protected values are known to the driver and searched in every output of every call; a two-process scenario (another process protects a key this process has used) on both back-ends',
         'verbatim substring scan (>= 8 bytes); encoded leaks are out of reach', '3/C02'),
 'C03': ('walker', MC, 'explicit-state enumeration of the reference model; every (abstract state, symbol) edge replayed on the real library and compared via C_GetSessionInfo on every session',
         'the abstract session/login state graph of the model is enumerated breadth-first up to the stated session bound and every edge is executed against the real library from a fresh token directory; random long walks beyond the bound; plus a fault lane: 19 (login state, call) pairs repeated with the k-th file-system operation of the call failing, for every k (a failed call leaves every session as it was)',
         'abstraction = (login state and user-PIN presence per token, multiset of (token, RW) sessions); the model is the trusted base', '3/C03'),
 'C04': ('walker', EX, 'lock-step PIN model + independent at-rest decoder of the PIN blobs',
         'histories of InitToken/InitPIN/SetPIN/Login/restart with hostile PIN alphabets; the model predicts exactly which byte string authenticates; an independent decoder checks both PIN blobs unwrap the same master key; a sweep of failing file-system operations under PIN changes runs as an observation lane (outside the quantifier, never judged)',
         'a wrong PIN is accepted by chance with p~2^-32 per attempt; such a hit is retried before being reported', '3/C04'),
 'C05': ('walker+faults', EX, 'persistence model compared after restarts, independent on-disk decoders, golden fixtures, FS fault injection by interposition',
         'object histories with restarts in-process and in new processes; golden token directories written by the pinned version; every FS operation of create/set/destroy/copy failed in turn',
         'durability against process restart, not power loss (the library never fsyncs)', '3/C05'),
 'C06': ('walker', EX, 'raw scan of the token directory for recorded plaintexts + independent decryption of every stored blob + permission monitor',
         'every store path x class x byte-string attribute; plaintext values are unique random strings searched in all files after each step; IV uniqueness; stat() of every path against the configured umask; application-supplied check values; every private object in the directory decrypted whether or not the API can read it; permission bits after a re-initialisation with a changed umask',
         'verbatim scan; nested template entries are excluded as the property says', '3/C06'),
 'C07': ('tables', EX, 'exhaustive table enumeration against a coarse reference mechanism table, with positive controls',
         'operation x key kind x usage flag x mechanism x allowed-list x slots.mechanisms configuration, every cell executed; plus usage flags cleared by another process (both back-ends); half of the restricted-configuration jobs in a process that first worked unrestricted and was re-initialised after softhsm2.conf changed', 'family-level notion of "fits"', '3/C07'),
 'C08': ('tables', EX, 'attribute-policy model compared by re-reading all attributes after every accepted/rejected template',
         'class x attribute x operation cells and flag histories; effects checked by re-reading, history attributes derived from the recorded provenance; one-way changes made by another process cannot be undone (both back-ends); object gates and one-way flags attacked from SO and public sessions as well', 'read-only set taken from PKCS#11 v2.40 tables', '3/C08'),
 'C09': ('faults', FE, 'snapshot/compare (API + independent directory decoder) around every failing call, incl. injected FS faults',
         'failing calls by construction over template positions, session states, mechanisms and wrapped blobs, plus every FS operation of each call kind failed in turn', 'generation counters / lock files / token flags are not objects', '3/C09'),
 'C10': ('cryptodiff', EX, 'differential testing against an independent implementation (nettle block primitives + standards written in Python), tamper and chunking monitors',
         'every advertised mechanism x key sizes x boundary lengths x random chunkings x parameter ranges, each computed on both sides at run time', 'refcrypt is the trusted base; a bug common to both sides is out of reach', '3/C10'),
 'C11': ('walker', EX, 'lock-step handle-liveness monitor: every handle ever issued is probed after every call',
         'model-guided random histories over two tokens; numeric uniqueness is a set check, liveness and denotation are probed through the API after every step', 'probes use a session of the same token', '3/C11'),
 'C12': ('cryptodiff', EX, 'operation-state model + canary/red-zone output buffers + twin-run comparison',
         'random interleavings of Init/Update/Final/one-shot/size-query for all operation kinds and announced sizes', '"failed" read narrowly as in DESIGN 3/C12', '3/C12'),
 'C13': ('cryptodiff', EX, 'differential wrap/unwrap/derive against the independent implementation + attribute model',
         'every wrap and derive mechanism x key types x lengths, malformed blobs with C09-style snapshots', 'refcrypt trusted', '3/C13'),
 'C14': ('walker', EX, 'per-token snapshot/compare monitor around every call, slot-id rule, softhsm2-util as an actor',
         'histories over 2-3 tokens with init/re-init/util/restarts (stray entries in the token directory); every other token is snapshotted around every call; a directed non-interference table (one script on token A under five states of token B) and a two-process re-initialisation scenario; fresh C_InitToken with every file-system operation failing in turn (tokens come from successful calls only, census after restart); two threads racing for the one free slot', 'model trusted', '3/C14'),
 'C15': ('conc', EX, 'offline history checker over per-process logs with unique written values; FS-level delays injected by interposition',
         'enumerated call-granularity interleavings of 2-3 processes (file and db back-ends, handles tracked per object incarnation) plus concurrent runs, duels and observers with injected delays; after concurrent runs every process and a fresh one must read one value per object; runs with rare long stalls', 'concurrent runs, duels and observers: file back-end (the anchors); serialised interleavings: file and db', '3/C15'),
 'C16': ('faults', FE, 'crash-point enumeration by FS interposition (_exit before/after every FS operation, torn flushes) + recovery probe in a fresh process',
         'every FS operation of every writing call kind is a crash point; recovery compares every object and PIN with the pre/post snapshots; token flags old-or-new; every record-boundary prefix of a protected key file opened by a fresh process that tries to read and wrap the key', 'process death, not power loss', '3/C16'),
 'C17': ('fuzz', EX, 'ASan/UBSan + termination interposers under generated hostile API sequences, coverage-guided libFuzzer harnesses and structure-aware file mutation',
         'hostile call sequences over all entry points, mutated object/token/config files and serialised multi-process interleavings; any sanitizer memory report, fatal signal, exit/abort or non-CKR return is a violation; plus a coverage-guided lane: libFuzzer harnesses (ASan/UBSan) over object files, token.object, softhsm2.conf and the DER / ByteString helpers', 'a clean ASan run is not memory safety; crypto libraries are uninstrumented', '3/C17'),
 'C18': ('conc', EX, 'ASan + TSan builds under multi-threaded stress with yielding mutex callbacks; behavioural oracles (conservation, uniqueness, thread-local results) and a linearizability search against the model',
         'thread counts 2-16, seeds, both locking modes; data races keyed by racy location against a recorded baseline', 'schedules are sampled, not enumerated; no deterministic replay (no rr)', '3/C18'),
 'C19': ('walker', EX, 'lock-step search oracle: result multiset compared with model.visible ∩ matches for generated populations/templates/batch sizes',
         'random populations on two tokens, templates incl. absent/wrong-sized/empty values, five session states, random batch-size sequences; searches for untouched objects while another process writes with slowed-down syncs (file and db)', 'typed equality as in the statement; CK_BBOOL values 0/1 only', '3/C19'),
 'C20': ('diff4', TV, 'differential execution of one generated program on {file,db} x {OpenSSL,Botan}',
         'the same seeded programs (one process, and two processes sharing the token) run on four configurations; return codes, attributes and deterministic outputs compared field by field; randomised outputs cross-verified; concurrent programs of 3-4 processes each using only its own token objects, transcripts compared between configurations', 'restricted to mechanisms advertised by both crypto back-ends', '3/C20'),
}
READY = os.environ.get('READY')
def main():
    subprocess.check_call([f'{V}/tools/merge_kf.py'])
    ready = [l.strip() for l in open(f'{V}/tools/READY').read().split() if l.strip()]
    checks = []; na = []
    for pid, (eng, cat, tech, text, note, ref) in sorted(T.items()):
        if pid in ready and os.path.exists(f'{V}/checks/{pid.lower()}.py'):
            checks.append({'property_id': pid, 'quick_cmd': f'./check {pid} --tier quick', 'thorough_cmd': f'./check {pid} --tier thorough',
                           'evidence_file': f'/verif/evidence/{pid}.json', 'replay_cmd_template': f'./check {pid} --replay {{path}}', 'engine': eng,
                           'level_claimed': {'category': cat, 'text': text, 'design_ref': f'DESIGN.md section {ref}'}, 'level_note': note, 'technique': tech})
        else:
            na.append({'property_id': pid, 'reason': 'check not built yet in this session (runtime monitoring applies; see DESIGN.md section ' + ref + ')'})
    hooks = {'guard': 'SOFTHSMV2_VERIF', 'enable': 'tools/build.py passes -DSOFTHSMV2_VERIF in CMAKE_CXX_FLAGS for every config it builds (asan, tsan, botan, plain) from a content mirror of /repo',
             'baseline_off_cmd': 'python3 /verif/tools/baseline.py', 'source_commits': [], 'add_only': True}
    engines = [
        {'name': 'p11x', 'path': 'exec/p11x.cpp', 'serves_properties': sorted(T), 'kind_free_text': 'host executor (co-process + threads mode) with exact-size canary output buffers, FS / record-lock / RNG / exit / abort / assert interposers (exec/interpose.cpp), logical and monotonic clocks'},
        {'name': 'walker', 'path': 'vlib/walker.py', 'serves_properties': ['C01', 'C03', 'C04', 'C11', 'C14', 'C19'], 'kind_free_text': 'sequential reference model (vlib/model.py) stepped in lock-step with the library; monitors after every call; vlib/walkcheck.py runs histories in parallel'},
        {'name': 'tables', 'path': 'checks/c07.py', 'serves_properties': ['C01', 'C02', 'C07', 'C08'], 'kind_free_text': 'exhaustive cell enumerators with positive controls (vlib/mechtable.py, vlib/keys_fixed2.py, vlib/keymat.py)'},
        {'name': 'cryptodiff', 'path': 'vlib/refcrypt.py', 'serves_properties': ['C10', 'C12', 'C13'], 'kind_free_text': 'independent crypto implementation (nettle block primitives + standards in Python) compared with the token; chunking, tamper and size-protocol monitors'},
        {'name': 'faults', 'path': 'checks/c16.py', 'serves_properties': ['C05', 'C06', 'C09', 'C16'], 'kind_free_text': 'FS fault and crash-point enumeration by interposition + recovery probe in a fresh process; independent decoders vlib/objfile.py, dbfile.py, tokenkey.py; golden fixtures'},
        {'name': 'fuzz', 'path': 'checks/c17.py', 'serves_properties': ['C17'], 'kind_free_text': 'hostile API sequences and structure-aware file mutation under ASan/UBSan with termination interposers'},
        {'name': 'conc', 'path': 'checks/c18.py', 'serves_properties': ['C15', 'C18'], 'kind_free_text': 'threads mode with yielding mutex callbacks (uniform and rare-long stalls), TSan race keys vs baseline, Wing-Gong linearizability search with culprit localisation; multi-process orchestrator with history checker'},
        {'name': 'diff4', 'path': 'checks/c20.py', 'serves_properties': ['C20'], 'kind_free_text': 'the same seeded program on {file,db} x {OpenSSL,Botan}'}]
    m = {'version': 1, 'setup_cmd': './setup.sh', 'hooks': hooks, 'engines': engines, 'checks': checks, 'not_applicable': na,
         'notes': 'All checks rebuild what they need from /repo\'s working tree into $VERIF_CACHE (default /var/tmp/softhsmv2-verif) via tools/build.py. exit 0 held / 1 violation / 2 inconclusive.'}
    json.dump(m, open(f'{V}/MANIFEST.json', 'w'), indent=1)
    print('checks:', [c['property_id'] for c in checks], 'not_applicable:', len(na))
if __name__ == '__main__': main()
