#!/usr/bin/env python3
"""Run the repository's pinned baseline (guard OFF, the repo's own /repo/_build) and compare the
per-cppunit-case results with /root/.vp/BASELINE.json.  Exit 0 iff every baseline case passes."""
import json, os, re, subprocess, sys, glob
B = '/repo/_build'
def main():
    if not os.path.exists(B + '/build.ninja'):
        subprocess.check_call(['cmake', '-G', 'Ninja', '-S', '/repo', '-B', B, '-DBUILD_TESTS=ON', '-DCMAKE_BUILD_TYPE=RelWithDebInfo'])
    r = subprocess.run(['cmake', '--build', B], stdout=subprocess.PIPE, stderr=subprocess.STDOUT, text=True)
    if r.returncode != 0: print(r.stdout[-4000:]); print('BASELINE: build failed'); return 2
    for f in glob.glob(B + '/src/lib/**/test-results.xml', recursive=True): os.unlink(f)
    subprocess.run(['ctest', '--test-dir', B, '-j8', '--timeout', '900'], stdout=subprocess.DEVNULL, stderr=subprocess.DEVNULL)
    names = {'crypto/test': 'cryptotest', 'data_mgr/test': 'datamgrtest', 'handle_mgr/test': 'handlemgrtest', 'object_store/test': 'objstoretest',
             'session_mgr/test': 'sessionmgrtest', 'slot_mgr/test': 'slotmgrtest', 'test': 'p11test'}
    passed = set(); failed = set()
    for sub, bn in names.items():
        p = f'{B}/src/lib/{sub}/test-results.xml'
        if not os.path.exists(p): print('BASELINE: missing', p); continue
        t = open(p, encoding='latin-1').read()
        fsec = t.split('<SuccessfulTests>')[0]; ssec = t.split('<SuccessfulTests>')[1] if '<SuccessfulTests>' in t else ''
        for m in re.finditer(r'<Name>([^<]+)</Name>', fsec): failed.add(bn + '::' + m.group(1))
        for m in re.finditer(r'<Name>([^<]+)</Name>', ssec): passed.add(bn + '::' + m.group(1))
    base = set(json.load(open('/root/.vp/BASELINE.json'))['stable_pass'])
    for bn in names.values():   # a binary with a single case is named <bin>::<bin> in the baseline
        if bn + '::' + bn in base and any(x.startswith(bn + '::') for x in passed) and not any(x.startswith(bn + '::') for x in failed): passed.add(bn + '::' + bn)
    missing = sorted(base - passed)
    print(f'BASELINE: {len(base & passed)}/{len(base)} baseline cases pass; {len(passed)} pass, {len(failed)} fail overall')
    for m in missing: print('  NOT PASSING:', m)
    return 0 if not missing else 1
if __name__ == '__main__': sys.exit(main())
