#!/usr/bin/env python3-vt
import json, jsonschema, glob, sys
jsonschema.validate(json.load(open('/verif/MANIFEST.json')), json.load(open('/root/.vp/MANIFEST.schema.json')))
sch = json.load(open('/root/.vp/EVIDENCE.schema.json')); bad = 0
for f in sorted(glob.glob('/verif/evidence/*.json')):
    try: jsonschema.validate(json.load(open(f)), sch)
    except Exception as e: print('INVALID', f, str(e)[:300]); bad += 1
m = json.load(open('/verif/MANIFEST.json'))
for c in m['checks']:
    try: e = json.load(open('/verif/evidence/%s.json' % c['property_id']))
    except Exception: print('NO EVIDENCE', c['property_id']); bad += 1; continue
    if e['level'] != c['level_claimed']['category']: print('LEVEL MISMATCH', c['property_id'], e['level'], c['level_claimed']['category']); bad += 1
print('manifest valid; evidence files checked:', len(glob.glob('/verif/evidence/*.json')), 'invalid:', bad); sys.exit(1 if bad else 0)
