#!/usr/bin/env python3
# Compiler launcher: src/lib/crypto/CMakeLists.txt appends MSVC "/wd4250"-style options whenever
# Botan is selected; gcc treats them as missing input files.  Drop them and exec the real compiler.
import os, sys
args = [a for a in sys.argv[1:] if not a.startswith('/wd')]
os.execvp(args[0], args)
