#!/usr/bin/env python3
"""Confirm a seeded change delivered by an independent sub-agent in its scratch worktree and adopt it:
  1. in the worktree: apply the patch, build + run the 195-case suite (must stay 195/195), run the
     demonstration against the patched library (must fail), revert, run it against the unpatched
     library the agent kept (must pass);
  2. copy patch.diff + demonstration + notes to /verif/seeded/<id>/ and write meta.json;
  3. run the named checks against the patch on a scratch copy (tools/seedtest.py) and record which fire.
usage: adopt_seed.py <worktree> <n> <seed-id> <property> <Cnn> [<Cnn>...] [--tier quick]"""
import sys, os, subprocess, shutil, json, re, time
V = os.path.dirname(os.path.dirname(os.path.abspath(__file__)))
def sh(cmd, **kw): return subprocess.run(cmd, stdout=subprocess.PIPE, stderr=subprocess.STDOUT, text=True, **kw)
def main():
    args = [a for a in sys.argv[1:] if not a.startswith('--')]; tier = 'quick'; plib = clib = None
    if '--tier' in sys.argv: tier = sys.argv[sys.argv.index('--tier') + 1]; args.remove(tier)
    # demonstrations that need another build (SQLite back-end, ASan, Botan): libraries the seeding agent kept in tmpwork/ (space-separated list = several arguments of demo.sh)
    if '--patched-lib' in sys.argv: plib = sys.argv[sys.argv.index('--patched-lib') + 1]; args.remove(plib)
    if '--clean-lib' in sys.argv: clib = sys.argv[sys.argv.index('--clean-lib') + 1]; args.remove(clib)
    wt, n, sid, prop, checks = args[0], args[1], args[2], args[3], args[4:]
    m = f'{wt}/MUTATION/{n}'; patch = f'{m}/patch.diff'; ran = []
    sh(['git', 'checkout', '--', 'src'], cwd=wt)
    r = sh(['git', 'apply', patch], cwd=wt)
    if r.returncode != 0: print('patch does not apply', r.stdout); sys.exit(3)
    r = sh(['python3', '/root/work/mut/suite.py', wt]); suite_line = [l for l in r.stdout.splitlines() if l.startswith('BASELINE:')][-1:] or [r.stdout[-300:]]
    suite_ok = bool(suite_line) and '195/195' in suite_line[0]; ran.append(f'python3 suite.py {wt} (patched): {suite_line[0]}')
    lib = f'{wt}/_build/src/lib/libsofthsm2.so'
    pl = [f'{wt}/tmpwork/{x}' for x in plib.split()] if plib else [lib]
    d1 = sh(['bash', f'{m}/demo.sh'] + pl, cwd=m, timeout=1800); ran.append(f'demo.sh <patched lib{" " + plib if plib else ""}>: exit {d1.returncode}')
    sh(['git', 'checkout', '--', 'src'], cwd=wt)
    clean = None
    if clib:
        d0 = sh(['bash', f'{m}/demo.sh'] + [f'{wt}/tmpwork/{x}' for x in clib.split()], cwd=m, timeout=1800); ran.append(f'demo.sh <unpatched lib {clib}>: exit {d0.returncode}'); clean = 'given'
    for c in ('lib-clean.so', 'libsofthsm2-clean.so', 'clean.so'):
        if os.path.exists(f'{wt}/tmpwork/{c}'): clean = f'{wt}/tmpwork/{c}'
    if clean is None and not clib:
        cands = [f for f in os.listdir(f'{wt}/tmpwork')] if os.path.isdir(f'{wt}/tmpwork') else []
        cl = [f for f in cands if 'clean' in f and f.endswith('.so')] + [f for f in cands if ('orig' in f or 'unpatched' in f) and f.endswith('.so')]
        clean = f'{wt}/tmpwork/{cl[0]}' if cl else None
    if clean is None:
        sh(['python3', '/root/work/mut/suite.py', wt]); clean = lib
    if not clib:
        d0 = sh(['bash', f'{m}/demo.sh', clean], cwd=m, timeout=1800); ran.append(f'demo.sh <unpatched lib {os.path.basename(clean)}>: exit {d0.returncode}')
    confirmed = suite_ok and d1.returncode != 0 and d0.returncode == 0
    print('\n'.join(ran)); print('CONFIRMED' if confirmed else 'NOT CONFIRMED')
    if not confirmed:
        print('--- demo patched tail:\n' + d1.stdout[-800:] + '\n--- demo clean tail:\n' + d0.stdout[-800:]); sys.exit(4)
    dst = f'{V}/seeded/{sid}'; shutil.rmtree(dst, ignore_errors=True); os.makedirs(dst)
    for f in os.listdir(m):
        p = f'{m}/{f}'
        if os.path.isfile(p) and os.path.getsize(p) < 400000 and not f.endswith(('.so', '.o')): shutil.copy(p, dst)
    r = sh([f'{V}/tools/seedtest.py', patch, sid] + checks + ['--tier', tier]); print(r.stdout[-3000:])
    try: res = json.loads([l for l in r.stdout.splitlines() if l.startswith('{"patch"')][-1])['results']
    except Exception: res = {'error': r.stdout[-500:]}
    notes = open(f'{m}/notes.md', errors='replace').read() if os.path.exists(f'{m}/notes.md') else ''
    meta = {'id': sid, 'property': prop, 'origin': 'independent sub-agent given only the property text and a scratch worktree', 'needs_to_manifest': notes[:1500],
            'confirmed': {'suite_with_patch': suite_line[0], 'demo_exit_patched': d1.returncode, 'demo_exit_unpatched': d0.returncode, 'ran': ran},
            'checks_run': {c: {'exit': v.get('exit'), 'n_violations': v.get('n_violations'), 'violation_keys': v.get('violation_keys', [])[:6], 'wall_s': v.get('wall_s')} for c, v in res.items()} if 'error' not in res else res,
            'caught_by': [c for c, v in res.items() if isinstance(v, dict) and v.get('exit') == 1], 'tier': tier, 'date': time.strftime('%Y-%m-%d %H:%M UTC', time.gmtime())}
    json.dump(meta, open(f'{dst}/meta.json', 'w'), indent=1)
    print('adopted as', dst, 'caught_by', meta['caught_by'])
if __name__ == '__main__': main()
