#!/usr/bin/env python3
"""Golden-fixture generator for C05 (kept for documentation: the fixtures directory is the artifact).

It needs a build of the PINNED library (git commit 4957998 of /repo, the tree before the `fix:` commits):
    git -C /repo worktree add /dev/shm/pinned-wt 4957998
    VERIF_REPO=/dev/shm/pinned-wt VERIF_CACHE=/dev/shm/pinned-cache python3 /verif/tools/build.py plain botan
    VERIF_PINNED_CACHE=/dev/shm/pinned-cache python3 /verif/tools/mkfixtures.py [out-dir]
    git -C /repo worktree remove --force /dev/shm/pinned-wt; rm -rf /dev/shm/pinned-cache

For each back-end (file, db) and crypto library (openssl = config `plain`, botan) it lets the pinned library write a
token directory with two tokens (known SO/user PINs, some with NUL and 0xFF bytes, PIN changes, a failed login) holding
objects of every class with every attribute kind and size, then copies the directory, opens the COPY in a new pinned
process, logs in with the PINs and records what the API returns in expect.json.  CKA_START_DATE/CKA_END_DATE are only
put on PUBLIC objects (the pinned tree could not read them back from private ones; fixed since)."""
import hashlib, json, os, shutil, sys
HERE = os.path.dirname(os.path.abspath(__file__)); VERIF = os.path.dirname(HERE); sys.path.insert(0, f'{VERIF}/vlib')
from ck import CK
from p11client import Exec, mkconf
import persist

CACHE = os.environ.get('VERIF_PINNED_CACHE', '/dev/shm/pinned-cache')
PINNED = '4957998'
OUT = sys.argv[1] if len(sys.argv) > 1 else f'{VERIF}/fixtures'
SCRATCH = '/dev/shm/mkfixtures-%d' % os.getpid()
CRYPTO = {'openssl': 'plain', 'botan': 'botan'}

def rb(n, tag):
    """deterministic incompressible bytes"""
    out = b''; i = 0
    while len(out) < n: out += hashlib.sha256(b'%s/%d' % (tag.encode(), i)).digest(); i += 1
    return out[:n]
def patterned(n, tag): return (tag.encode() + b'|' + bytes(range(256))) * (n // (len(tag) + 257) + 1)
OAKLEY2 = bytes.fromhex('FFFFFFFFFFFFFFFFC90FDAA22168C234C4C6628B80DC1CD129024E088A67CC74020BBEA63B139B22514A08798E3404DDEF9519B3CD3A431B302B0A6DF25F14374FE1356D6D51C245E485B576625E7EC6F44C42E9A637ED6B0BFF5CB6F406B7EDEE386BFB5A899FA5AE9F24117C4B1FE649286651ECE65381FFFFFFFFFFFFFFFF')
P256 = bytes.fromhex('06082a8648ce3d030107'); P384 = bytes.fromhex('06052b81040022'); ED25519 = bytes.fromhex('06032b6570')

class Gen:
    def __init__(s, crypto, backend, d):
        cfg = CRYPTO[crypto]; s.ck = CK(f'{CACHE}/src/src/lib/pkcs11/pkcs11.h'); s.d = d; s.crypto = crypto; s.backend = backend
        s.exe = f'{CACHE}/p11x-{cfg}'; s.lib = f'{CACHE}/build-{cfg}/src/lib/libsofthsm2.so'
        s.x = s.start(d, backend); s.log = []
    def start(s, d, backend):
        conf = mkconf(d, backend); n = len([f for f in os.listdir(d) if f.startswith('stderr')])
        x = Exec(s.exe, s.lib, conf, s.ck, stderr=f'{d}/stderr{n}.log'); r = x.call('C_Initialize'); assert r['rv'] == 0, r; return x
    def ok(self, fn, **kw):
        s = self; r = s.x.call(fn, **kw); assert r['rv'] == 0, (fn, r['rvname'], {k: (v if len(str(v)) < 200 else [(s.ck.ATTR.get(e.get('t')), len(str(e))) for e in v] if isinstance(v, list) else '...') for k, v in kw.items()}); return r
    def may(self, what, fn, **kw):
        s = self; r = s.x.call(fn, **kw)
        if r['rv'] != 0: s.log.append('%s/%s: skipped %s (%s)' % (s.backend, s.crypto, what, r['rvname'])); return None
        return r
    def T(s, t): return s.x.T(t)
    @staticmethod
    def as_session(tmpl): return [(a, (False if a == 'CKA_TOKEN' else v)) for a, v in tmpl]
    def create(s, h, tmpl, optional=None):
        if optional:
            # a failing C_CreateObject of the pinned tree leaves a half-built object on disk (fixed since): try the
            # template as a SESSION object first so that a refusal cannot leave a residue in the fixture
            if s.may(optional, 'C_CreateObject', s=h, tmpl=s.T(s.as_session(tmpl))) is None: return None
        return s.ok('C_CreateObject', s=h, tmpl=s.T(tmpl))['h']
    def generate(s, what, fn, h, **kw):
        probe = {k: (s.T(s.as_session(v)) if k in ('tmpl', 'pub', 'priv') else v) for k, v in kw.items()}
        if s.may(what, fn, s=h, **probe) is None: return None
        return s.ok(fn, s=h, **{k: (s.T(v) if k in ('tmpl', 'pub', 'priv') else v) for k, v in kw.items()})
    def vals(s, h, o, names):
        rv, v = s.x.getattrs(h, o, names, cap=8192); assert rv == 'CKR_OK', (rv, names); return v

    def init_token(s, label, so, user):
        slot = s.ok('C_GetSlotList', count=16)['slots'][-1]
        s.ok('C_InitToken', slot=slot, pin=so.hex(), label=label.hex())
        h = s.ok('C_OpenSession', slot=slot)['h']; s.ok('C_Login', s=h, user=0, pin=so.hex()); s.ok('C_InitPIN', s=h, pin=user.hex()); s.ok('C_Logout', s=h)
        s.x.call('C_GetSlotList', null=True)
        return slot, h

    def populate_A(s, h, slot, so, user):
        ck = s.ck; big = s.crypto == 'openssl'
        s.ok('C_Login', s=h, user=1, pin=user.hex())
        DATA = [('CKA_CLASS', ck.CKO_DATA), ('CKA_TOKEN', True)]
        oid = bytes.fromhex('06035504 03'.replace(' ', ''))
        for priv in (False, True):
            p = 'priv' if priv else 'pub'
            sizes = [0, 1, 4096] + ([300 * 1024] if (big or not priv) else [])
            for n in sizes:
                v = rb(n, f'data-{p}-{n}') if (priv or n < 100000) else patterned(n, f'data-{p}-{n}')[:n]
                s.create(h, DATA + [('CKA_PRIVATE', priv), ('CKA_LABEL', f'data-{p}-{n}'.encode()), ('CKA_APPLICATION', f'app {p} \xc3\xa9'.encode('latin-1')), ('CKA_OBJECT_ID', oid), ('CKA_VALUE', v)])
        # the db back-end of the pinned tree cannot read CKA_DESTROYABLE back (persist.DB_UNREADABLE): a non-default value there would bake that defect into expect.json
        s.create(h, DATA + [('CKA_PRIVATE', False), ('CKA_LABEL', b'data-frozen'), ('CKA_VALUE', b'frozen'), ('CKA_MODIFIABLE', False), ('CKA_COPYABLE', False)] + ([('CKA_DESTROYABLE', False)] if s.backend == 'file' else []))
        s.create(h, DATA + [('CKA_PRIVATE', False), ('CKA_LABEL', b''), ('CKA_OBJECT_ID', b'data-empty-label')])
        s.create(h, DATA + [('CKA_PRIVATE', True), ('CKA_LABEL', b'data-priv-binary-label\x00\xff\x00'), ('CKA_APPLICATION', b'\x00\xff'), ('CKA_VALUE', bytes(range(256)))])
        # certificates (dates only on the public ones)
        CERT = [('CKA_CLASS', ck.CKO_CERTIFICATE), ('CKA_CERTIFICATE_TYPE', ck.CKC_X_509), ('CKA_TOKEN', True)]
        s.create(h, CERT + [('CKA_LABEL', b'cert-pub'), ('CKA_SUBJECT', rb(60, 'subj')), ('CKA_ID', b'\x01\x00\xff\x02'), ('CKA_ISSUER', rb(70, 'iss')), ('CKA_SERIAL_NUMBER', b'\x02\x09' + rb(9, 'ser')),
                            ('CKA_VALUE', b'\x30\x82\x02\x54' + rb(600, 'certv')), ('CKA_START_DATE', b'20240229'), ('CKA_END_DATE', b'20991231'), ('CKA_CERTIFICATE_CATEGORY', 2),
                            ('CKA_JAVA_MIDP_SECURITY_DOMAIN', 1), ('CKA_NAME_HASH_ALGORITHM', ck.CKM_SHA256), ('CKA_HASH_OF_SUBJECT_PUBLIC_KEY', rb(20, 'hs')), ('CKA_HASH_OF_ISSUER_PUBLIC_KEY', rb(20, 'hi'))])
        s.create(h, CERT + [('CKA_PRIVATE', True), ('CKA_LABEL', b'cert-priv'), ('CKA_SUBJECT', rb(33, 'subj2')), ('CKA_ID', rb(20, 'cid2')), ('CKA_VALUE', rb(4096, 'certv2')), ('CKA_ISSUER', rb(17, 'iss2')), ('CKA_SERIAL_NUMBER', b'\x02\x01\x07')])
        s.create(h, CERT + [('CKA_LABEL', b'cert-url'), ('CKA_SUBJECT', rb(20, 'subj3')), ('CKA_VALUE', b''), ('CKA_URL', b'https://example.invalid/c.der'), ('CKA_HASH_OF_SUBJECT_PUBLIC_KEY', rb(20, 'hs3')), ('CKA_HASH_OF_ISSUER_PUBLIC_KEY', rb(20, 'hi3'))], optional='certificate with CKA_URL')
        s.create(h, [('CKA_CLASS', ck.CKO_CERTIFICATE), ('CKA_CERTIFICATE_TYPE', ck.CKC_OPENPGP), ('CKA_TOKEN', True), ('CKA_LABEL', b'cert-pgp'), ('CKA_SUBJECT', b'pgp subject'), ('CKA_VALUE', rb(300, 'pgp'))], optional='OpenPGP certificate')
        # secret keys through C_CreateObject
        SK = [('CKA_CLASS', ck.CKO_SECRET_KEY), ('CKA_TOKEN', True)]
        mechsets = {'AES': [ck.CKM_AES_CBC, ck.CKM_AES_ECB, ck.CKM_AES_GCM, ck.CKM_AES_KEY_WRAP, ck.CKM_AES_CMAC], 'DES3': [ck.CKM_DES3_CBC], 'GENERIC_SECRET': [ck.CKM_SHA256_HMAC]}
        for kt, lens in (('AES', (16, 24, 32)), ('DES3', (24,)), ('DES2', (16,)), ('DES', (8,)), ('GENERIC_SECRET', (1, 20, 4096)), ('SHA256_HMAC', (32,))):
            for n in lens:
                for priv in (False, True):
                    p = 'priv' if priv else 'pub'; name = f'sk-{kt}-{n}-{p}'
                    t = SK + [('CKA_KEY_TYPE', ck['CKK_' + kt]), ('CKA_PRIVATE', priv), ('CKA_LABEL', name.encode()), ('CKA_ID', rb(1 + n % 19, name)), ('CKA_VALUE', rb(n, name)), ('CKA_SENSITIVE', False), ('CKA_EXTRACTABLE', True),
                             ('CKA_ENCRYPT', n % 2 == 0), ('CKA_DERIVE', True), ('CKA_WRAP', not priv)]
                    if kt in mechsets: t.append(('CKA_ALLOWED_MECHANISMS', mechsets[kt]))
                    if not priv: t += [('CKA_START_DATE', b'20%02d0101' % (n % 90)), ('CKA_END_DATE', b'')]
                    if kt == 'AES' and n != 24:
                        t.append(('CKA_WRAP_TEMPLATE', [('CKA_CLASS', ck.CKO_SECRET_KEY), ('CKA_KEY_TYPE', ck.CKK_AES), ('CKA_EXTRACTABLE', True), ('CKA_SENSITIVE', False), ('CKA_LABEL', b'nested label ' + name.encode()), ('CKA_ID', b''), ('CKA_VALUE_LEN', 32)]))
                        t.append(('CKA_UNWRAP_TEMPLATE', [('CKA_TOKEN', False), ('CKA_ALLOWED_MECHANISMS', [ck.CKM_AES_CBC, ck.CKM_AES_ECB])] if n == 16 else []))
                    s.create(h, t, optional=None if kt in ('AES', 'GENERIC_SECRET', 'DES3') else name)
        s.create(h, SK + [('CKA_KEY_TYPE', ck.CKK_AES), ('CKA_PRIVATE', True), ('CKA_LABEL', b'sk-AES-sensitive'), ('CKA_VALUE', rb(32, 'sens')), ('CKA_SENSITIVE', True), ('CKA_EXTRACTABLE', False), ('CKA_WRAP_WITH_TRUSTED', True)])
        # generated secret keys
        s.ok('C_GenerateKey', s=h, mech=s.x.M('CKM_AES_KEY_GEN'), tmpl=s.T([('CKA_TOKEN', True), ('CKA_PRIVATE', True), ('CKA_VALUE_LEN', 32), ('CKA_LABEL', b'gen-aes-sensitive'), ('CKA_SENSITIVE', True), ('CKA_EXTRACTABLE', False)]))
        s.ok('C_GenerateKey', s=h, mech=s.x.M('CKM_AES_KEY_GEN'), tmpl=s.T([('CKA_TOKEN', True), ('CKA_PRIVATE', False), ('CKA_VALUE_LEN', 16), ('CKA_LABEL', b'gen-aes-readable'), ('CKA_SENSITIVE', False), ('CKA_EXTRACTABLE', True)]))
        s.ok('C_GenerateKey', s=h, mech=s.x.M('CKM_DES3_KEY_GEN'), tmpl=s.T([('CKA_TOKEN', True), ('CKA_PRIVATE', True), ('CKA_LABEL', b'gen-des3'), ('CKA_SENSITIVE', False), ('CKA_EXTRACTABLE', True)]))
        s.ok('C_GenerateKey', s=h, mech=s.x.M('CKM_GENERIC_SECRET_KEY_GEN'), tmpl=s.T([('CKA_TOKEN', True), ('CKA_PRIVATE', True), ('CKA_VALUE_LEN', 48), ('CKA_LABEL', b'gen-generic'), ('CKA_SENSITIVE', False), ('CKA_EXTRACTABLE', True)]))
        # domain parameters
        dsa = s.ok('C_GenerateKey', s=h, mech=s.x.M('CKM_DSA_PARAMETER_GEN'), tmpl=s.T([('CKA_TOKEN', True), ('CKA_PRIME_BITS', 1024), ('CKA_LABEL', b'dom-dsa-gen')]))['h']
        dp = s.vals(h, dsa, ['CKA_PRIME', 'CKA_SUBPRIME', 'CKA_BASE'])
        s.generate('DH parameter generation', 'C_GenerateKey', h, mech=s.x.M('CKM_DH_PKCS_PARAMETER_GEN'), tmpl=[('CKA_TOKEN', True), ('CKA_PRIVATE', False), ('CKA_PRIME_BITS', 512), ('CKA_LABEL', b'dom-dh-gen')])
        s.create(h, [('CKA_CLASS', ck.CKO_DOMAIN_PARAMETERS), ('CKA_KEY_TYPE', ck.CKK_DH), ('CKA_TOKEN', True), ('CKA_PRIVATE', False), ('CKA_PRIME', OAKLEY2), ('CKA_BASE', b'\x02'), ('CKA_LABEL', b'dom-dh-created')], optional='DH domain parameters by C_CreateObject')
        s.create(h, [('CKA_CLASS', ck.CKO_DOMAIN_PARAMETERS), ('CKA_KEY_TYPE', ck.CKK_DSA), ('CKA_TOKEN', True), ('CKA_PRIVATE', True), ('CKA_PRIME', dp['CKA_PRIME']), ('CKA_SUBPRIME', dp['CKA_SUBPRIME']), ('CKA_BASE', dp['CKA_BASE']), ('CKA_LABEL', b'dom-dsa-created')], optional='DSA domain parameters by C_CreateObject')
        # key pairs: generated (public object public, private object private + readable), then imported copies through C_CreateObject
        PUB = lambda name, extra: [('CKA_TOKEN', True), ('CKA_LABEL', name.encode() + b'-pub'), ('CKA_ID', name.encode()), ('CKA_VERIFY', True)] + extra
        PRV = lambda name, extra=[]: [('CKA_TOKEN', True), ('CKA_PRIVATE', True), ('CKA_SENSITIVE', False), ('CKA_EXTRACTABLE', True), ('CKA_LABEL', name.encode() + b'-priv'), ('CKA_ID', name.encode()), ('CKA_SIGN', True), ('CKA_SUBJECT', rb(25, name))] + extra
        pairs = [('rsa1024', 'CKM_RSA_PKCS_KEY_PAIR_GEN', [('CKA_MODULUS_BITS', 1024), ('CKA_PUBLIC_EXPONENT', b'\x01\x00\x01'), ('CKA_ENCRYPT', True), ('CKA_WRAP', True), ('CKA_START_DATE', b'20200101'), ('CKA_END_DATE', b'20400101')], [('CKA_DECRYPT', True), ('CKA_UNWRAP', True), ('CKA_ALLOWED_MECHANISMS', [ck.CKM_RSA_PKCS, ck.CKM_SHA256_RSA_PKCS, ck.CKM_RSA_PKCS_OAEP]), ('CKA_UNWRAP_TEMPLATE', [('CKA_CLASS', ck.CKO_SECRET_KEY), ('CKA_EXTRACTABLE', False)])], ck.CKK_RSA,
                  ['CKA_MODULUS', 'CKA_PUBLIC_EXPONENT'], ['CKA_MODULUS', 'CKA_PUBLIC_EXPONENT', 'CKA_PRIVATE_EXPONENT', 'CKA_PRIME_1', 'CKA_PRIME_2', 'CKA_EXPONENT_1', 'CKA_EXPONENT_2', 'CKA_COEFFICIENT']),
                 ('ec256', 'CKM_EC_KEY_PAIR_GEN', [('CKA_EC_PARAMS', P256)], [('CKA_DERIVE', True)], ck.CKK_EC, ['CKA_EC_PARAMS', 'CKA_EC_POINT'], ['CKA_EC_PARAMS', 'CKA_VALUE']),
                 ('ec384', 'CKM_EC_KEY_PAIR_GEN', [('CKA_EC_PARAMS', P384)], [], ck.CKK_EC, ['CKA_EC_PARAMS', 'CKA_EC_POINT'], ['CKA_EC_PARAMS', 'CKA_VALUE']),
                 ('dsa1024', 'CKM_DSA_KEY_PAIR_GEN', [('CKA_PRIME', dp['CKA_PRIME']), ('CKA_SUBPRIME', dp['CKA_SUBPRIME']), ('CKA_BASE', dp['CKA_BASE'])], [], ck.CKK_DSA, ['CKA_PRIME', 'CKA_SUBPRIME', 'CKA_BASE', 'CKA_VALUE'], ['CKA_PRIME', 'CKA_SUBPRIME', 'CKA_BASE', 'CKA_VALUE']),
                 ('dh1024', 'CKM_DH_PKCS_KEY_PAIR_GEN', [('CKA_PRIME', OAKLEY2), ('CKA_BASE', b'\x02')], [('CKA_DERIVE', True)], ck.CKK_DH, ['CKA_PRIME', 'CKA_BASE', 'CKA_VALUE'], ['CKA_PRIME', 'CKA_BASE', 'CKA_VALUE']),
                 ('ed25519', 'CKM_EC_EDWARDS_KEY_PAIR_GEN', [('CKA_EC_PARAMS', ED25519)], [], ck.CKK_EC_EDWARDS, ['CKA_EC_PARAMS', 'CKA_EC_POINT'], ['CKA_EC_PARAMS', 'CKA_VALUE'])]
        for name, mech, pubx, prvx, kt, pubattrs, prvattrs in pairs:
            r = s.generate('key pair ' + name, 'C_GenerateKeyPair', h, mech=s.x.M(mech), pub=PUB(name, pubx), priv=PRV(name, prvx))
            if r is None: continue
            pv = s.vals(h, r['hpub'], pubattrs); sv = s.vals(h, r['hpriv'], prvattrs)
            s.create(h, [('CKA_CLASS', ck.CKO_PUBLIC_KEY), ('CKA_KEY_TYPE', kt), ('CKA_TOKEN', True), ('CKA_PRIVATE', True), ('CKA_LABEL', name.encode() + b'-pub-imported-private'), ('CKA_ID', rb(8, name))] + [(a, pv[a]) for a in pubattrs], optional='import of public key ' + name)
            s.create(h, [('CKA_CLASS', ck.CKO_PRIVATE_KEY), ('CKA_KEY_TYPE', kt), ('CKA_TOKEN', True), ('CKA_PRIVATE', True), ('CKA_SENSITIVE', False), ('CKA_EXTRACTABLE', True), ('CKA_LABEL', name.encode() + b'-priv-imported'), ('CKA_ID', rb(8, name))] + [(a, sv[a]) for a in prvattrs], optional='import of private key ' + name)
            s.create(h, [('CKA_CLASS', ck.CKO_PRIVATE_KEY), ('CKA_KEY_TYPE', kt), ('CKA_TOKEN', True), ('CKA_PRIVATE', False), ('CKA_SENSITIVE', False), ('CKA_EXTRACTABLE', True), ('CKA_LABEL', name.encode() + b'-priv-imported-public'), ('CKA_START_DATE', b'20250601'), ('CKA_END_DATE', b'20260601')] + [(a, sv[a]) for a in prvattrs], optional='import of private key (CKA_PRIVATE false) ' + name)
        s.generate('sensitive RSA pair', 'C_GenerateKeyPair', h, mech=s.x.M('CKM_RSA_PKCS_KEY_PAIR_GEN'), pub=PUB('rsa-sens', [('CKA_MODULUS_BITS', 1024), ('CKA_PUBLIC_EXPONENT', b'\x03')]),
                   priv=[('CKA_TOKEN', True), ('CKA_PRIVATE', True), ('CKA_SENSITIVE', True), ('CKA_EXTRACTABLE', False), ('CKA_LABEL', b'rsa-sens-priv'), ('CKA_ALWAYS_AUTHENTICATE', False)])
        # a little history: modify, copy (file back-end only: the db back-end of the pinned tree loses attributes on copy), destroy
        rv, hs = s.x.findall(h, [('CKA_LABEL', b'data-pub-1')]); s.ok('C_SetAttributeValue', s=h, o=hs[0], tmpl=s.T([('CKA_LABEL', b'data-pub-1-renamed')]))
        rv, hs = s.x.findall(h, [('CKA_LABEL', b'sk-AES-32-priv')]); s.ok('C_SetAttributeValue', s=h, o=hs[0], tmpl=s.T([('CKA_ID', rb(64, 'new id')), ('CKA_ENCRYPT', False)]))
        if s.backend == 'file':
            rv, hs = s.x.findall(h, [('CKA_LABEL', b'data-pub-4096')]); s.ok('C_CopyObject', s=h, o=hs[0], tmpl=s.T([('CKA_LABEL', b'data-copy-to-private'), ('CKA_PRIVATE', True)]))
            rv, hs = s.x.findall(h, [('CKA_LABEL', b'sk-AES-16-pub')]); s.ok('C_CopyObject', s=h, o=hs[0], tmpl=s.T([('CKA_LABEL', b'sk-AES-16-copy')]))
        doomed = s.create(h, DATA + [('CKA_LABEL', b'doomed'), ('CKA_VALUE', b'this object is destroyed before the fixture is closed')]); s.ok('C_DestroyObject', s=h, o=doomed)
        s.create(h, [('CKA_CLASS', ck.CKO_DATA), ('CKA_TOKEN', False), ('CKA_LABEL', b'session object: must not be in the fixture'), ('CKA_VALUE', b'session-only')])
        s.ok('C_Logout', s=h)
        # a trusted certificate can only be made by the SO
        s.ok('C_Login', s=h, user=0, pin=so.hex())
        s.create(h, CERT + [('CKA_PRIVATE', False), ('CKA_LABEL', b'cert-trusted'), ('CKA_SUBJECT', rb(30, 'subj4')), ('CKA_VALUE', rb(128, 'certv4')), ('CKA_TRUSTED', True)], optional='trusted certificate (SO)')
        s.ok('C_Logout', s=h)

    def populate_B(s, h, slot, pins):
        ck = s.ck
        # PIN history: both PINs are changed; the final ones contain NUL / 0xFF bytes
        s.ok('C_Login', s=h, user=0, pin=pins['so0'].hex()); s.ok('C_SetPIN', s=h, old=pins['so0'].hex(), new=pins['so'].hex()); s.ok('C_Logout', s=h)
        s.ok('C_Login', s=h, user=1, pin=pins['user0'].hex()); s.ok('C_SetPIN', s=h, old=pins['user0'].hex(), new=pins['user'].hex())
        s.create(h, [('CKA_CLASS', ck.CKO_DATA), ('CKA_TOKEN', True), ('CKA_PRIVATE', True), ('CKA_LABEL', b'B-data-priv'), ('CKA_VALUE', rb(100, 'B1'))])
        s.create(h, [('CKA_CLASS', ck.CKO_DATA), ('CKA_TOKEN', True), ('CKA_PRIVATE', False), ('CKA_LABEL', b'B-data-pub'), ('CKA_VALUE', rb(100, 'B2'))])
        s.create(h, [('CKA_CLASS', ck.CKO_SECRET_KEY), ('CKA_KEY_TYPE', ck.CKK_AES), ('CKA_TOKEN', True), ('CKA_PRIVATE', True), ('CKA_LABEL', b'B-aes'), ('CKA_VALUE', rb(32, 'B3')), ('CKA_SENSITIVE', False), ('CKA_EXTRACTABLE', True)])
        s.ok('C_GenerateKeyPair', s=h, mech=s.x.M('CKM_EC_KEY_PAIR_GEN'), pub=s.T([('CKA_TOKEN', True), ('CKA_EC_PARAMS', P256), ('CKA_LABEL', b'B-ec-pub')]), priv=s.T([('CKA_TOKEN', True), ('CKA_PRIVATE', True), ('CKA_SENSITIVE', False), ('CKA_EXTRACTABLE', True), ('CKA_LABEL', b'B-ec-priv')]))
        s.ok('C_Logout', s=h)
        r = s.x.call('C_Login', s=h, user=1, pin=b'not the user pin'.hex()); assert r['rvname'] == 'CKR_PIN_INCORRECT', r      # leaves CKF_USER_PIN_COUNT_LOW behind

def snapshot(gen, d, pins_by_label):
    """open a COPY of the directory in a new pinned process and record what the API returns"""
    c = d + '-verify'; shutil.copytree(d, c, symlinks=True); x = gen.start(c, gen.backend); ck = gen.ck; toks = []
    for slot in x.call('C_GetSlotList', count=16)['slots']:
        ti = x.call('C_GetTokenInfo', slot=slot)
        if not (ti['flags'] & ck.CKF_TOKEN_INITIALIZED): continue
        label = bytes.fromhex(ti['label']); pins = pins_by_label[label.rstrip(b' ')]
        t = {'label': ti['label'], 'serial': ti['serial'], 'flags': ti['flags'], 'so_pin': pins['so'].hex(), 'user_pin': pins['user'].hex()}
        h = x.call('C_OpenSession', slot=slot)['h']
        assert x.call('C_Login', s=h, user=0, pin=pins['so'].hex())['rv'] == 0; x.call('C_Logout', s=h)
        assert x.call('C_Login', s=h, user=1, pin=pins['user'].hex())['rv'] == 0
        objs = persist.read_token(x, h, ck); t['objects'] = sorted((persist.to_json(o, ck) for o in objs), key=lambda o: (o.get('CKA_CLASS'), o.get('CKA_LABEL')))
        labels = [o['CKA_LABEL'] for o in t['objects']]; assert len(set(labels)) == len(labels), ('labels must be unique', [o for o in t['objects'] if labels.count(o['CKA_LABEL']) > 1])
        x.call('C_Logout', s=h); x.call('C_CloseSession', s=h); toks.append(t)
    x.call('C_Finalize'); x.close(); shutil.rmtree(c)
    return toks

def crosscheck(d, backend, toks, ck):
    """sanity: the independent decoders read the generated directory back to the recorded values"""
    n = 0
    for dt in persist.read_disk(f'{d}/tokens', backend, SCRATCH):
        assert not dt.problems, dt.problems
        t = [t for t in toks if bytes.fromhex(t['serial']) == dt.info.serial][0]
        mk = dt.master_key(bytes.fromhex(t['user_pin'])); assert mk and mk == dt.master_key(bytes.fromhex(t['so_pin']), so=True)
        disk = {}
        for o in dt.objects:
            v, probs = o.api_view(mk, ck); assert not probs, probs; disk[v.get('CKA_LABEL')] = v
        for o in t['objects']:
            v = disk[bytes.fromhex(o['CKA_LABEL'])]
            for a, e in o.items():
                if 'unavailable' in e: continue
                if backend == 'db' and a in persist.DB_UNREADABLE: continue      # see persist.DB_UNREADABLE: the pinned db back-end answers with the default
                assert persist.json_matches(e, v.get(a), ck), (o['CKA_LABEL'], a, e, persist.short(v.get(a))); n += 1
        assert len(disk) == len(t['objects'])
    return n

def main():
    shutil.rmtree(SCRATCH, ignore_errors=True); os.makedirs(SCRATCH); summary = []
    for backend in ('file', 'db'):
        for crypto in ('openssl', 'botan'):
            d = f'{SCRATCH}/{backend}-{crypto}'; os.makedirs(d); g = Gen(crypto, backend, d)
            pinsA = {'so': b'so\x00pin\xffA', 'user': b'user-pin-A'}
            pinsB = {'so0': b'sopin-B-1234', 'so': b'SO-B\x00\xff-final', 'user0': b'userB-initial', 'user': b'\xff\x00u\x00\xffB'}
            slotA, hA = g.init_token(b'fixture-A', pinsA['so'], pinsA['user']); g.populate_A(hA, slotA, pinsA['so'], pinsA['user'])
            slotB, hB = g.init_token(b'fixture-B \xc3\xa9t\xc3\xa9', pinsB['so0'], pinsB['user0']); g.populate_B(hB, slotB, pinsB)
            g.x.call('C_Finalize'); g.x.close()
            toks = snapshot(g, d, {b'fixture-A': pinsA, b'fixture-B \xc3\xa9t\xc3\xa9': pinsB})
            n = crosscheck(d, backend, toks, g.ck)
            out = f'{OUT}/{backend}/{crypto}'; shutil.rmtree(out, ignore_errors=True); os.makedirs(out)
            shutil.copytree(f'{d}/tokens', f'{out}/tokens')
            json.dump({'format': 1, 'pinned_commit': PINNED, 'backend': backend, 'crypto': crypto, 'tokens': toks}, open(f'{out}/expect.json', 'w'), indent=0, sort_keys=True)
            size = sum(st.st_size for p, st in persist.all_files(out))
            summary.append((backend, crypto, [len(t['objects']) for t in toks], n, size)); print(f'{backend}/{crypto}: objects per token {[len(t["objects"]) for t in toks]}, {n} attribute values cross-checked with the decoders, {size} bytes'); print('\n'.join('  ' + l for l in g.log))
    shutil.rmtree(SCRATCH, ignore_errors=True)
if __name__ == '__main__': main()
