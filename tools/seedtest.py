#!/usr/bin/env python3
"""Run checks against a seeded change WITHOUT touching /repo: the patch is applied to a scratch copy of
/repo's working tree and the checks are pointed at it (VERIF_REPO / VERIF_CACHE); evidence and replays of
these runs go to the scratch area, never to /verif/evidence.
usage: seedtest.py <patch.diff> <name> <Cnn> [<Cnn> ...] [--tier quick|thorough] [--keep]"""
import sys, os, subprocess, shutil, json, time, re
V = os.path.dirname(os.path.dirname(os.path.abspath(__file__)))
def main():
    args = [a for a in sys.argv[1:] if not a.startswith('--')]; tier = 'quick'
    if '--tier' in sys.argv: tier = sys.argv[sys.argv.index('--tier') + 1]; args.remove(tier)
    patch, name, checks = args[0], args[1], args[2:]
    root = f'/dev/shm/seed-{name}'; shutil.rmtree(root, ignore_errors=True); os.makedirs(root)
    subprocess.check_call(['rsync', '-a', '--exclude', '_build', '--exclude', '.git', '/repo/', f'{root}/repo/'])
    r = subprocess.run(['patch', '-p1', '--no-backup-if-mismatch', '-i', os.path.abspath(patch)], cwd=f'{root}/repo', stdout=subprocess.PIPE, stderr=subprocess.STDOUT, text=True)
    if r.returncode != 0: print('PATCH DOES NOT APPLY:\n' + r.stdout); shutil.rmtree(root, ignore_errors=True); sys.exit(3)
    env = dict(os.environ, VERIF_REPO=f'{root}/repo', VERIF_CACHE=f'{root}/cache', VERIF_REPLAY_DIR=f'{root}/replays', VERIF_EVIDENCE_DIR=f'{root}/evidence')
    out = {'patch': patch, 'tier': tier, 'results': {}}
    for c in checks:
        t0 = time.time(); r = subprocess.run([f'{V}/check', c, '--tier', tier], env=env, cwd=V, stdout=subprocess.PIPE, stderr=subprocess.STDOUT, text=True)
        keys = re.findall(r'^\s+key=(.*)$', r.stdout, re.M); summ = [l for l in r.stdout.splitlines() if l.startswith(f'[{c}]')]
        out['results'][c] = {'exit': r.returncode, 'violation_keys': keys[:12], 'n_violations': len(keys), 'wall_s': round(time.time() - t0, 1), 'summary': summ[-2:]}
        print(f'{c}: exit={r.returncode} violations={len(keys)} wall={out["results"][c]["wall_s"]}s'); [print('    ', k) for k in keys[:6]]
        if r.returncode == 2: print('\n'.join(r.stdout.splitlines()[-6:]))
    print(json.dumps(out))
    if '--keep' not in sys.argv: shutil.rmtree(root, ignore_errors=True)
if __name__ == '__main__': main()
