#!/bin/bash
# MANIFEST.setup_cmd: build every library config + executor from /repo's working tree into the cache.
set -e
cd "$(dirname "$(readlink -f "$0")")"
python3 tools/build.py asan tsan botan plain
python3 vlib/refcrypt.py --selftest >/dev/null 2>&1 || true
echo setup ok
